package main

import (
	"fmt"
	"os"
	"time"
	"go/constant"
	"go/token"
	"go/types"
	"math/big"
	"sort"
	"strings"

	"golang.org/x/tools/go/packages"
	"golang.org/x/tools/go/ssa"
)

// Engine holds the loaded program, the specifications and global registries.
type Engine struct {
	prog      *ssa.Program
	entAlloc  []string
	bindings    map[string]map[string]string // recorded types of the locals named by loop invariants (rename tolerance)
	recBindings map[string]map[string]string // being recorded on this run (--record-bindings)
	spkgs     map[string]*ssa.Package
	tpkgs     map[string]*packages.Package
	fset      *token.FileSet
	specs     *Specs
	modPath   string
	fnByKey   map[string]*ssa.Function
	leafCache map[string][]Leaf
	keySort   map[string]Sort
	keyIsRef  map[string]bool
	typeIDs   map[string]int
	refAxioms bool
	maxPaths  int
	maxDepth  int
	obls      []*Obligation
	unmodel   map[string]map[string]bool // unit -> unmodelled callee names
	skipped   map[string]map[string]bool // unit -> skipped (abstracted) callee names
	inlined   map[string]map[string]bool
	trustedCs map[string]map[string]bool // unit -> contracts assumed (callee)
	intrUsed  map[string]map[string]bool
	notes     []string
	ent       *entSchema
	unitAssume map[string]map[string]bool
	unitBudget time.Duration
}

// Unit is one function under contract being verified.
type Unit struct {
	fn       *ssa.Function
	c        *Contract
	name     string
	paths    int
	loops    []*loopInfo
	loopOf   map[*ssa.BasicBlock]*loopInfo
	err      string
	retOrd   map[ssa.Instruction]string
	callOrd  map[ssa.Instruction]string
	siteOrd  map[ssa.Instruction]string
	truncated bool
	deadline  time.Time
	returns   int            // return instructions reached with the postconditions checked
	invCover  map[string]int // cover queries issued per loop / return site (a few paths each, judged as a group)
}

type loopInfo struct {
	head    *ssa.BasicBlock
	body    map[*ssa.BasicBlock]bool
	ordinal int
	spec    *LoopSpec
	fn      *ssa.Function
}

// Obligation is one proof obligation with its SMT script.
type Obligation struct {
	Name    string
	Unit    string
	Kind    string
	Props   []string
	Script  string
	Trace   []string
	Goal    string
	Src     string
	Result  SolveResult
	Tried   []SolveResult
	Vacuity bool // cover query: expected sat
	Dup     int
	Prefix  string
	goalT   *Term
	Parts   []*Obligation // a combined obligation: solved individually only if the conjunction fails
	Skip    bool
}

func (e *Engine) typeID(s string) int {
	if id, ok := e.typeIDs[s]; ok {
		return id
	}
	id := len(e.typeIDs) + 1
	e.typeIDs[s] = id
	return id
}

func (e *Engine) note(unit, kind, what string) {
	var m map[string]map[string]bool
	switch kind {
	case "unmodelled":
		m = e.unmodel
	case "skipped":
		m = e.skipped
	case "inlined":
		m = e.inlined
	case "contract":
		m = e.trustedCs
	case "intrinsic":
		m = e.intrUsed
	case "assumption":
		m = e.unitAssume
	}
	if m[unit] == nil {
		m[unit] = map[string]bool{}
	}
	m[unit][what] = true
}

func relName(fn *ssa.Function) string {
	if fn.Pkg == nil {
		if fn.Package() != nil {
			return fn.RelString(fn.Package().Pkg)
		}
		return fn.String()
	}
	return fn.RelString(fn.Pkg.Pkg)
}

func fnKey(fn *ssa.Function) string {
	p := fn.Package()
	if p == nil {
		// instantiated generic or synthetic
		if o := fn.Origin(); o != nil && o.Package() != nil {
			return o.Package().Pkg.Path() + "." + fn.RelString(o.Package().Pkg)
		}
		return fn.String()
	}
	return p.Pkg.Path() + "." + fn.RelString(p.Pkg)
}

// ---------------------------------------------------------------------------
// Loops

func findLoops(fn *ssa.Function) []*loopInfo {
	var loops []*loopInfo
	byHead := map[*ssa.BasicBlock]*loopInfo{}
	for _, b := range fn.Blocks {
		for _, s := range b.Succs {
			if s.Dominates(b) {
				li := byHead[s]
				if li == nil {
					li = &loopInfo{head: s, body: map[*ssa.BasicBlock]bool{s: true}, fn: fn}
					byHead[s] = li
					loops = append(loops, li)
				}
				// natural loop: nodes that reach b without passing through s
				var stack []*ssa.BasicBlock
				if !li.body[b] {
					li.body[b] = true
					stack = append(stack, b)
				}
				for len(stack) > 0 {
					x := stack[len(stack)-1]
					stack = stack[:len(stack)-1]
					for _, p := range x.Preds {
						if !li.body[p] {
							li.body[p] = true
							stack = append(stack, p)
						}
					}
				}
			}
		}
	}
	sort.Slice(loops, func(i, j int) bool { return loops[i].head.Index < loops[j].head.Index })
	for i, l := range loops {
		l.ordinal = i + 1
	}
	return loops
}

// ---------------------------------------------------------------------------
// Unit verification driver

func (e *Engine) newState(u *Unit) *State {
	st := &State{e: e, u: u, declared: map[string]bool{}, heap: &HeapView{vers: map[string]*Term{}}, pre: &HeapView{vers: map[string]*Term{}},
		labels: map[string]*HeapView{}, nver: map[string]int{}, opened: map[*ssa.BasicBlock]bool{}, loopEntry: map[*ssa.BasicBlock]*HeapView{}, strlits: map[string]*Term{}, ghostObj: map[string]any{}}
	st.allocB = st.declare("A0", SInt)
	st.assume(Gt(st.allocB, IntLit(0)))
	return st
}

func (e *Engine) verifyUnit(u *Unit) {
	defer func() {
		if r := recover(); r != nil {
			if ue, ok := r.(unsupportedErr); ok {
				u.err = ue.msg
				return
			}
			panic(r)
		}
	}()
	fn := u.fn
	u.deadline = time.Now().Add(e.unitBudget)
	u.loops = findLoops(fn)
	u.loopOf = map[*ssa.BasicBlock]*loopInfo{}
	for _, l := range u.loops {
		u.loopOf[l.head] = l
		for _, ls := range u.c.Loops {
			if ls.Ordinal == l.ordinal {
				l.spec = ls
			}
		}
	}
	for _, ls := range u.c.Loops {
		found := false
		for _, l := range u.loops {
			if l.spec == ls {
				found = true
			}
		}
		if !found {
			// invariants are proof aids only: a loop that no longer exists needs none; the ensures clauses still have to hold
			e.notes = append(e.notes, fmt.Sprintf("%s: loop %d of the contract does not exist any more (function has %d loops); its invariants are ignored", u.name, ls.Ordinal, len(u.loops)))
		}
	}
	e.computeOrdinals(u)
	prevNative := nativeStrings
	nativeStrings = u.c.Native
	defer func() { nativeStrings = prevNative }()

	st := e.newState(u)
	fr := &Frame{fn: fn, vals: map[ssa.Value]SVal{}, isUnit: true}
	st.frames = []*Frame{fr}
	if len(u.c.Params) != len(fn.Params) {
		u.err = fmt.Sprintf("binding: contract lists %d parameters, function has %d", len(u.c.Params), len(fn.Params))
		return
	}
	for i, p := range fn.Params {
		fr.vals[p] = st.freshVal("p."+u.c.Params[i], p.Type())
	}
	for i, fv := range fn.FreeVars {
		// free variables of a closure: pointers to captured cells or values
		v := st.freshVal(fmt.Sprintf("fv.%s", fv.Name()), fv.Type())
		fr.bindings = append(fr.bindings, v)
		_ = i
	}
	// spec modules' axioms
	st.loadModules(u.c.Uses)
	// preconditions
	env := st.unitEnv(fr, nil)
	for _, r := range u.c.Requires {
		st.assume(st.elabBool(env, r.E))
	}
	// vacuity probe: requires must be satisfiable
	e.addObligation(st, u, "cover", "requires-satisfiable", "entry", TFalse, u.c.Props, "requires", true)
	if u.c.NoPanic {
		// a unit without any panic site still counts as analysed
		e.addObligation(st, u, "nopanic", "analysed", "entry", TTrue, u.c.Props, "the unit was explored for panic sites", false)
	}
	fr.ret = func(st *State, results []SVal) {
		st.checkEnsures(fr, results)
	}
	st.execBlock(fr, fn.Blocks[0], nil)
}

func (e *Engine) computeOrdinals(u *Unit) {
	u.retOrd = map[ssa.Instruction]string{}
	u.callOrd = map[ssa.Instruction]string{}
	u.siteOrd = map[ssa.Instruction]string{}
	type item struct {
		in  ssa.Instruction
		pos token.Pos
		idx int
	}
	var rets []item
	calls := map[string][]item{}
	n := 0
	for _, b := range u.fn.Blocks {
		for _, in := range b.Instrs {
			n++
			switch x := in.(type) {
			case *ssa.Return:
				rets = append(rets, item{in, x.Pos(), n})
			case ssa.CallInstruction:
				name := calleeName(x.Common())
				calls[name] = append(calls[name], item{in, x.Pos(), n})
			}
		}
	}
	less := func(a, b item) bool {
		if a.pos != b.pos && a.pos != token.NoPos && b.pos != token.NoPos {
			return a.pos < b.pos
		}
		return a.idx < b.idx
	}
	sort.Slice(rets, func(i, j int) bool { return less(rets[i], rets[j]) })
	for i, r := range rets {
		if r.pos == token.NoPos {
			u.retOrd[r.in] = "return.end"
		} else {
			u.retOrd[r.in] = fmt.Sprintf("return.%d", i+1)
		}
	}
	for name, cs := range calls {
		sort.Slice(cs, func(i, j int) bool { return less(cs[i], cs[j]) })
		for i, c := range cs {
			u.callOrd[c.in] = fmt.Sprintf("%s.%d", name, i+1)
		}
	}
}

func calleeName(c *ssa.CallCommon) string {
	if c.IsInvoke() {
		return "invoke." + c.Method.Name()
	}
	if f := c.StaticCallee(); f != nil {
		n := f.Name()
		if f.Signature.Recv() != nil {
			n = strings.TrimPrefix(typeShort(f.Signature.Recv().Type()), "*") + "." + n
		}
		return n
	}
	if b, ok := c.Value.(*ssa.Builtin); ok {
		return b.Name()
	}
	return "dynamic"
}

func typeShort(t types.Type) string {
	return types.TypeString(t, func(p *types.Package) string { return "" })
}

// ---------------------------------------------------------------------------
// Obligations

func (e *Engine) addObligation(st *State, u *Unit, kind, label, site string, goal *Term, props []string, src string, vacuity bool) {
	name := fmt.Sprintf("%s#%s:%s@%s", u.name, kind, label, site)
	if !vacuity && isTrue(goal) {
		// trivially true: still counted, with a trivial script
	}
	ob := &Obligation{Name: name, Unit: u.name, Kind: kind, Props: props, Trace: append([]string(nil), st.trace...), Goal: goal.S, Src: src, Vacuity: vacuity}
	ob.goalT = goal
	if st.batching > 0 {
		st.pending = append(st.pending, ob)
		return
	}
	ob.Prefix = st.scriptPrefix()
	e.obls = append(e.obls, ob)
}

// beginBatch/endBatch: obligations generated in between share one assumption prefix (computed at the
// end, so that declarations introduced while elaborating later goals are visible to all of them).
func (st *State) beginBatch() { st.batching++ }
func (st *State) endBatch() {
	st.batching--
	if st.batching > 0 || len(st.pending) == 0 {
		return
	}
	prefix := st.scriptPrefix()
	for _, ob := range st.pending {
		ob.Prefix = prefix
		for _, p := range ob.Parts {
			p.Prefix = prefix
		}
		st.e.obls = append(st.e.obls, ob)
	}
	st.pending = nil
}

// FullScript is the stand-alone SMT-LIB script of the obligation (built on demand).
func (ob *Obligation) FullScript() string {
	if ob.Script != "" {
		return ob.Script
	}
	return ob.Prefix + "(assert (not " + ob.Goal + "))\n(check-sat)\n(get-model)\n"
}

func scriptGoal(goal *Term) string {
	return "(assert (not " + goal.S + "))\n(check-sat)\n(get-model)\n"
}

func (st *State) script(goal *Term) string { return st.scriptPrefix() + scriptGoal(goal) }

func (st *State) scriptPrefix() string {
	var b strings.Builder
	b.WriteString("(set-option :smt.mbqi true)\n")
	b.WriteString("(set-logic ALL)\n")
	if !nativeStrings {
		b.WriteString("(declare-sort Str 0)\n")
	}
	b.WriteString("(define-fun go_div ((a Int) (b Int)) Int (ite (>= a 0) (ite (> b 0) (div a b) (- (div a (- b)))) (ite (> b 0) (- (div (- a) b)) (div (- a) (- b)))))\n")
	b.WriteString("(define-fun go_mod ((a Int) (b Int)) Int (- a (* b (go_div a b))))\n")
	for _, d := range st.decls {
		b.WriteString(d)
		b.WriteString("\n")
	}
	if !nativeStrings && len(st.strlits) > 1 {
		var names []string
		for _, t := range st.strlits {
			names = append(names, t.S)
		}
		sort.Strings(names)
		b.WriteString("(assert (distinct " + strings.Join(names, " ") + "))\n")
	}
	for _, a := range st.asserts {
		b.WriteString("(assert " + a.S + ")\n")
	}
	return b.String()
}

func (st *State) propsFor(c *Clause, def []string) []string {
	if len(c.Props) > 0 {
		return c.Props
	}
	return def
}

func (st *State) checkEnsures(fr *Frame, results []SVal) {
	u := st.u
	site := "return"
	if ri, ok := st.ghostObj["$retinstr"].(ssa.Instruction); ok {
		if s, ok := u.retOrd[ri]; ok {
			site = s
		}
	}
	u.returns++
	if u.invCover == nil {
		u.invCover = map[string]int{}
	}
	if u.invCover["ret:"+site] < 400 {
		// vacuity probe: a cover query per path reaching a return site; only the first and the last few per site are
		// solved (the first explored paths are the failure forks, the last ones the main line)
		u.invCover["ret:"+site]++
		st.e.addObligation(st, u, "cover", "return-reachable", site, TFalse, u.c.Props, "return", true)
	}
	env := st.unitEnv(fr, results)
	if os.Getenv("GOVC_PATHS") != "" {
		fmt.Fprintf(os.Stderr, "PATH %s %s: %s\n", u.name, site, strings.Join(st.trace, " "))
	}
	st.beginBatch()
	defer st.endBatch()
	for i, c := range u.c.Ensures {
		label := c.Label
		if label == "" {
			label = fmt.Sprintf("%d", i+1)
		}
		g := st.elabBool(env, c.E)
		st.e.addObligation(st, u, "ensures", label, site, g, st.propsFor(c, u.c.Props), c.Src, false)
	}
	if u.c.HasMods {
		var goals []*Term
		var parts []*Obligation
		for _, p := range st.uncoveredHavocs(append(append([]string(nil), u.c.Modifies...), u.c.Allocates...)) {
			if strings.HasPrefix(p, "F:") || strings.HasPrefix(p, "B:") || strings.HasPrefix(p, "E:") {
				continue // heap cells: checked precisely through the arrays this path read
			}
			st.e.addObligation(st, u, "frame", "havoc-"+p, site, TFalse, u.c.Props, "a callee or loop may modify "+p+", which the modifies clause does not list", false)
		}
		for _, k := range st.touchedKeys() {
			if matchKey(u.c.Modifies, k) {
				continue
			}
			s := st.e.keySort[k]
			cur := st.heapGet(st.heap, k, s, st.e.keyIsRef[k])
			pre := st.heapGet(st.pre, k, s, st.e.keyIsRef[k])
			var g *Term
			if s.IsArray() && (strings.HasPrefix(k, "F|") || strings.HasPrefix(k, "B|") || strings.HasPrefix(k, "E|") || strings.HasPrefix(k, "M") || strings.HasPrefix(k, "CB|")) {
				i := Const("i!f", SInt)
				g = Forall([]*Term{i}, Implies(And(Ge(i, IntLit(0)), Lt(i, Const("A0", SInt))), Eq(Select(cur, i), Select(pre, i))))
			} else {
				g = Eq(cur, pre)
			}
			goals = append(goals, g)
			name := fmt.Sprintf("%s#%s:%s@%s", u.name, "frame", displayKey(k), site)
			parts = append(parts, &Obligation{Name: name, Unit: u.name, Kind: "frame", Props: u.c.Props, Trace: append([]string(nil), st.trace...), Goal: g.S, goalT: g, Src: "modifies"})
		}
		if len(goals) == 1 {
			st.pending = append(st.pending, parts[0])
		} else if len(goals) > 1 {
			all := And(goals...)
			st.e.addObligation(st, u, "frame", fmt.Sprintf("all-%d-untouched-arrays", len(goals)), site, all, u.c.Props, "modifies", false)
			st.pending[len(st.pending)-1].Parts = parts
		}
	}
	u.paths++
}

// ---------------------------------------------------------------------------
// Block execution

func (st *State) tr(f string, a ...any) { st.trace = append(st.trace, fmt.Sprintf(f, a...)) }

func (st *State) val(fr *Frame, v ssa.Value) SVal {
	switch x := v.(type) {
	case *ssa.Const:
		return st.constVal(x)
	case *ssa.Function:
		return &FuncV{Fn: x}
	case *ssa.Global:
		t := x.Type().(*types.Pointer).Elem()
		return &AddrV{Kind: "global", Key: "G|" + x.Pkg.Pkg.Path() + "." + x.Name(), Type: t}
	case *ssa.FreeVar:
		for i, fv := range fr.fn.FreeVars {
			if fv == x {
				return fr.bindings[i]
			}
		}
		st.unsupported("free variable %s not bound", x.Name())
	case *ssa.Builtin:
		return &FuncV{Sym: IntLit(0)}
	}
	if sv, ok := fr.vals[v]; ok {
		return sv
	}
	st.unsupported("value %s (%T) has no symbolic value in %s", v.Name(), v, fr.fn.Name())
	return nil
}

func (st *State) constVal(c *ssa.Const) SVal {
	t := c.Type()
	if c.Value == nil {
		return st.zeroVal(t)
	}
	switch c.Value.Kind() {
	case constant.Bool:
		return BoolLit(constant.BoolVal(c.Value))
	case constant.String:
		return st.strLit(constant.StringVal(c.Value))
	case constant.Int:
		if b, ok := t.Underlying().(*types.Basic); ok && b.Info()&types.IsFloat != 0 {
			f, _ := constant.Float64Val(c.Value)
			return RealLit(f)
		}
		bi, ok := new(big.Int).SetString(c.Value.ExactString(), 10)
		if !ok {
			st.unsupported("int constant %s", c.Value.ExactString())
		}
		return BigLit(bi)
	case constant.Float:
		f, _ := constant.Float64Val(c.Value)
		if b, ok := t.Underlying().(*types.Basic); ok && b.Info()&types.IsInteger != 0 {
			return IntLit(int64(f))
		}
		return RealLit(f)
	}
	st.unsupported("constant kind %v", c.Value.Kind())
	return nil
}

const maxSteps = 200000

func (st *State) execBlock(fr *Frame, b *ssa.BasicBlock, prev *ssa.BasicBlock) {
	if st.dead {
		return
	}
	u := st.u
	// ghost updates of loops: whenever control leaves a loop's body (to the head again, or out of the loop), but not
	// when the head itself ends the loop
	if prev != nil {
		for _, ol := range st.loopsFor(fr) {
			if ol.spec != nil && len(ol.spec.Ghost) > 0 && ol.fn == fr.fn && ol.body[prev] && prev != ol.head && (b == ol.head || !ol.body[b]) {
				st.loopGhost(fr, ol)
			}
		}
	}
	// loop head handling (only for loops of the frame's function)
	if li := st.loopAt(fr, b); li != nil {
		if st.opened[b] {
			// back edge: check invariant preservation and stop
			st.bindPhis(fr, b, prev)
			st.checkInvariant(fr, li, "preserved")
			u.paths++
			return
		}
		st.bindPhis(fr, b, prev)
		if li.spec != nil && len(li.spec.Ghost) > 0 {
			st.loopGhost(fr, li)
		}
		st.loopEntry[b] = st.snapshot()
		st.checkInvariant(fr, li, "entry")
		st.opened[b] = true
		st.havocLoop(fr, li)
		st.assumeInvariant(fr, li)
		st.tr("loop%d", li.ordinal)
		st.execInstrs(fr, b, firstNonPhi(b))
		return
	}
	st.bindPhis(fr, b, prev)
	st.execInstrs(fr, b, firstNonPhi(b))
}

func firstNonPhi(b *ssa.BasicBlock) int {
	for i, in := range b.Instrs {
		if _, ok := in.(*ssa.Phi); !ok {
			return i
		}
	}
	return len(b.Instrs)
}

func (st *State) bindPhis(fr *Frame, b *ssa.BasicBlock, prev *ssa.BasicBlock) {
	if prev == nil {
		return
	}
	idx := -1
	for i, p := range b.Preds {
		if p == prev {
			idx = i
		}
	}
	if idx < 0 {
		st.unsupported("phi: predecessor not found")
	}
	// parallel assignment
	var phis []*ssa.Phi
	var vals []SVal
	for _, in := range b.Instrs {
		p, ok := in.(*ssa.Phi)
		if !ok {
			break
		}
		phis = append(phis, p)
		vals = append(vals, st.val(fr, p.Edges[idx]))
	}
	for i, p := range phis {
		fr.vals[p] = vals[i]
	}
}

func (st *State) loopAt(fr *Frame, b *ssa.BasicBlock) *loopInfo {
	if fr.isUnit {
		return st.u.loopOf[b]
	}
	for _, l := range st.e.loopsOf(fr.fn) {
		if l.head == b {
			return l
		}
	}
	return nil
}

func (st *State) loopsFor(fr *Frame) []*loopInfo {
	if fr.isUnit {
		return st.u.loops
	}
	return st.e.loopsOf(fr.fn)
}

var cellVarCache = map[*ssa.Function]map[string]*ssa.Alloc{}

// cellVars: source variables of fn that are backed by an Alloc (found through address-form DebugRefs).
func (e *Engine) cellVars(fn *ssa.Function) map[string]*ssa.Alloc {
	if m, ok := cellVarCache[fn]; ok {
		return m
	}
	m := map[string]*ssa.Alloc{}
	names := map[string]bool{}
	for _, b := range fn.Blocks {
		for _, in := range b.Instrs {
			if d, ok := in.(*ssa.DebugRef); ok {
				if obj, ok := d.Object().(*types.Var); ok && !obj.IsField() {
					names[obj.Name()] = true
					if al, ok := d.X.(*ssa.Alloc); ok && d.IsAddr {
						m[obj.Name()] = al
					}
				}
			}
		}
	}
	// an Alloc is labelled with the name of the source variable it holds
	dup := map[string]int{}
	for _, b := range fn.Blocks {
		for _, in := range b.Instrs {
			if al, ok := in.(*ssa.Alloc); ok && names[al.Comment] {
				dup[al.Comment]++
				m[al.Comment] = al
			}
		}
	}
	for n, c := range dup {
		if c > 1 {
			delete(m, n) // shadowed / redeclared name: ambiguous
		}
	}
	cellVarCache[fn] = m
	return m
}

var uniqueRefCache = map[*ssa.Function]map[string]ssa.Value{}

func (e *Engine) uniqueRefs(fn *ssa.Function) map[string]ssa.Value {
	if m, ok := uniqueRefCache[fn]; ok {
		return m
	}
	m := map[string]ssa.Value{}
	bad := map[string]bool{}
	for _, b := range fn.Blocks {
		for _, in := range b.Instrs {
			d, ok := in.(*ssa.DebugRef)
			if !ok || d.IsAddr {
				continue
			}
			obj, ok := d.Object().(*types.Var)
			if !ok || obj.IsField() {
				continue
			}
			if _, isConst := d.X.(*ssa.Const); isConst {
				continue
			}
			if _, isPhi := d.X.(*ssa.Phi); isPhi {
				bad[obj.Name()] = true
				continue
			}
			if prev, ok := m[obj.Name()]; ok && prev != d.X {
				bad[obj.Name()] = true
			}
			m[obj.Name()] = d.X
		}
	}
	for n := range bad {
		delete(m, n)
	}
	uniqueRefCache[fn] = m
	return m
}

var loopCache = map[*ssa.Function][]*loopInfo{}

func (e *Engine) loopsOf(fn *ssa.Function) []*loopInfo {
	if l, ok := loopCache[fn]; ok {
		return l
	}
	l := findLoops(fn)
	// an "inline" contract block of the function carries invariants for its loops
	if ct, ok := e.specs.Contracts[fnKey(fn)]; ok && ct.Inline {
		for _, li := range l {
			for _, ls := range ct.Loops {
				if ls.Ordinal == li.ordinal {
					li.spec = ls
				}
			}
		}
	}
	loopCache[fn] = l
	return l
}

func (st *State) loopEnv(fr *Frame, li *loopInfo) *Env {
	env := st.unitEnv(fr, nil)
	if !fr.isUnit {
		// an inlined function (e.g. a hook closure): its own parameters and captured variables are in scope
		env = &Env{vars: map[string]envVar{}, cells: map[string]*AddrV{}, old: st.pre, pkg: st.u.c.Pkg}
		for _, p := range fr.fn.Params {
			if v, ok := fr.vals[p]; ok {
				env.vars[p.Name()] = envVar{v, p.Type()}
			}
		}
		for i, fv := range fr.fn.FreeVars {
			if i < len(fr.bindings) {
				if pt, ok := fv.Type().Underlying().(*types.Pointer); ok {
					env.cells[fv.Name()] = st.ptrAddr(fr.bindings[i], pt.Elem())
				} else {
					env.vars[fv.Name()] = envVar{fr.bindings[i], fv.Type()}
				}
			}
		}
	}
	env.fnKey = fnKey(fr.fn)
	env.locals = map[string]bool{}
	// locals that live in a heap cell (address-taken or captured): always read through the cell
	for name, al := range st.e.cellVars(fr.fn) {
		if _, taken := env.vars[name]; taken {
			continue
		}
		if v, ok := fr.vals[al]; ok {
			env.cells[name] = st.ptrAddr(v, al.Type().Underlying().(*types.Pointer).Elem())
			env.locals[name] = true
		}
	}
	// source-level locals in scope (lowest priority)
	for name, d := range fr.dbg {
		if _, taken := env.vars[name]; taken {
			continue
		}
		if _, taken := env.cells[name]; taken {
			continue
		}
		if d.isAddr {
			if pt, ok := d.t.Underlying().(*types.Pointer); ok {
				env.cells[name] = st.ptrAddr(d.v, pt.Elem())
				env.locals[name] = true
			}
		} else {
			env.vars[name] = envVar{d.v, d.t}
			env.locals[name] = true
		}
	}
	// locals every non-constant reference of which denotes one and the same SSA value (single assignment, e.g.
	// m := map[K]V{}): visible as soon as that value has been computed
	for name, v := range st.e.uniqueRefs(fr.fn) {
		if _, taken := env.vars[name]; taken {
			continue
		}
		if _, taken := env.cells[name]; taken {
			continue
		}
		if sv, ok := fr.vals[v]; ok {
			env.vars[name] = envVar{sv, v.Type()}
			env.locals[name] = true
		}
	}
	// phis of every open loop of this function are visible as name<ordinal> (idx3, dest2, ...)
	for _, ol := range st.loopsFor(fr) {
		if !st.opened[ol.head] && ol != li {
			continue
		}
		for _, in := range ol.head.Instrs {
			p, ok := in.(*ssa.Phi)
			if !ok {
				break
			}
			name := p.Comment
			if name == "" {
				continue
			}
			if name == "rangeindex" {
				name = "idx"
			}
			if v, ok := fr.vals[p]; ok {
				env.vars[fmt.Sprintf("%s%d", name, ol.ordinal)] = envVar{v, p.Type()}
			}
		}
	}
	for _, in := range li.head.Instrs {
		p, ok := in.(*ssa.Phi)
		if !ok {
			break
		}
		name := p.Comment
		if name == "" {
			continue
		}
		if name == "rangeindex" {
			name = "idx"
		}
		if v, ok := fr.vals[p]; ok {
			env.vars[name] = envVar{v, p.Type()}
			if name != "idx" && env.locals != nil {
				env.locals[name] = true
			}
		}
	}
	if _, ok := env.vars["idx"]; !ok {
		// not a range loop (any more): if the head has exactly one counter of the form i := 0; ...; i++, the
		// invariant's range index idx is read as i-1 (the last element already processed)
		var cands []*ssa.Phi
		for _, in := range li.head.Instrs {
			p, ok := in.(*ssa.Phi)
			if !ok {
				break
			}
			if b, ok := p.Type().Underlying().(*types.Basic); !ok || b.Kind() != types.Int || len(p.Edges) != 2 {
				continue
			}
			zero, step := false, false
			for _, e := range p.Edges {
				if c, ok := e.(*ssa.Const); ok && c.Value != nil && c.Value.ExactString() == "0" {
					zero = true
				}
				if bo, ok := e.(*ssa.BinOp); ok && bo.Op == token.ADD && bo.X == ssa.Value(p) {
					if c, ok := bo.Y.(*ssa.Const); ok && c.Value != nil && c.Value.ExactString() == "1" {
						step = true
					}
				}
			}
			if zero && step {
				cands = append(cands, p)
			}
		}
		if len(cands) == 1 {
			if v, ok := fr.vals[cands[0]]; ok {
				env.vars["idx"] = envVar{Sub(st.scalar(v), IntLit(1)), cands[0].Type()}
				st.e.note(st.u.name, "assumption", fmt.Sprintf("loop %d of %s is not a range loop; the invariants' range index idx is read as %s-1", li.ordinal, fnKey(fr.fn), cands[0].Comment))
			}
		}
	}
	// visited set of a map-range loop; byte position of a string-range loop (strpos)
	for _, in := range li.head.Instrs {
		if nx, ok := in.(*ssa.Next); ok {
			if it, ok := fr.vals[nx.Iter].(*MapIterV); ok && !it.IsStr {
				env.visited = it
			} else if ok && it.IsStr {
				env.vars["strpos"] = envVar{Const(it.Pos, SInt), tInt}
			}
		}
	}
	env.entry = st.loopEntry[li.head]
	if env.visited == nil {
		// a loop nested in a map-range loop: visited() talks about the innermost enclosing map range
		var best *loopInfo
		for _, ol := range st.loopsFor(fr) {
			if ol == li || !ol.body[li.head] || (best != nil && len(ol.body) >= len(best.body)) {
				continue
			}
			for _, in := range ol.head.Instrs {
				if nx, ok := in.(*ssa.Next); ok {
					if it, ok := fr.vals[nx.Iter].(*MapIterV); ok && !it.IsStr {
						env.visited = it
						best = ol
					}
				}
			}
		}
	}
	return env
}

func (st *State) checkInvariant(fr *Frame, li *loopInfo, phase string) {
	if li.spec == nil {
		return
	}
	env := st.loopEnv(fr, li)
	st.beginBatch()
	defer st.endBatch()
	for i, c := range li.spec.Invs {
		label := c.Label
		if label == "" {
			label = fmt.Sprintf("%d", i+1)
		}
		g := st.elabBool(env, c.E)
		st.e.addObligation(st, st.u, "invariant", fmt.Sprintf("%s.%s", label, phase), fmt.Sprintf("loop.%d", li.ordinal), g, st.propsFor(c, st.u.c.Props), c.Src, false)
	}
}

// countedFrom recognises a loop-head phi of integer type whose incoming values are one integer constant c and
// the phi itself plus a positive constant: i := c; ...; i += k.
func countedFrom(p *ssa.Phi) (*Term, bool) {
	if b, ok := p.Type().Underlying().(*types.Basic); !ok || b.Info()&types.IsInteger == 0 || len(p.Edges) != 2 {
		return nil, false
	}
	var lo *Term
	step := false
	for _, e := range p.Edges {
		if c, ok := e.(*ssa.Const); ok && c.Value != nil && c.Value.Kind() == constant.Int {
			if v, exact := constant.Int64Val(c.Value); exact {
				lo = IntLit(v)
			}
		}
		if bo, ok := e.(*ssa.BinOp); ok && bo.Op == token.ADD && bo.X == ssa.Value(p) {
			if c, ok := bo.Y.(*ssa.Const); ok && c.Value != nil && c.Value.Kind() == constant.Int && constant.Sign(c.Value) > 0 {
				step = true
			}
		}
	}
	return lo, lo != nil && step
}

// loopGhost performs the ghost assignments of a loop specification with the current values of the locals (the
// latest value assigned to each source-level local on this path, not the loop-head phi).
func (st *State) loopGhost(fr *Frame, li *loopInfo) {
	env := st.loopEnv(fr, li)
	for name, d := range fr.dbg {
		if !d.isAddr {
			env.vars[name] = envVar{d.v, d.t}
		}
	}
	for _, g := range li.spec.Ghost {
		var args []*Term
		for _, a := range g.Args {
			v, _ := st.elab(env, a)
			args = append(args, st.scalar(v))
		}
		v, _ := st.elab(env, g.Value)
		st.ghostSet(g.Name, args, st.scalar(v))
	}
}

func (st *State) assumeInvariant(fr *Frame, li *loopInfo) {
	// automatic facts: range index >= -1
	for _, in := range li.head.Instrs {
		p, ok := in.(*ssa.Phi)
		if !ok {
			break
		}
		if p.Comment == "rangeindex" {
			st.assume(Ge(st.scalar(fr.vals[p]), IntLit(-1)))
		} else if lo, ok := countedFrom(p); ok {
			// a counter whose only definitions are "c" and "itself + positive constant" never goes below c
			if t, ok := fr.vals[p].(*Term); ok && t.Sort == SInt {
				st.assume(Ge(t, lo))
			}
		}
	}
	if li.spec == nil {
		return
	}
	env := st.loopEnv(fr, li)
	env.assumeInv = true
	for _, c := range li.spec.Invs {
		st.assume(st.elabBool(env, c.E))
	}
	env.assumeInv = false
	// vacuity probe (once per loop): the assumed invariant must be satisfiable together with the path so far
	if len(li.spec.Invs) > 0 {
		key := fmt.Sprintf("%s#%d", fr.fn.Name(), li.ordinal)
		if st.u.invCover == nil {
			st.u.invCover = map[string]int{}
		}
		if st.u.invCover[key] < 6 {
			st.u.invCover[key]++
			site := fmt.Sprintf("loop.%d", li.ordinal)
			if !fr.isUnit {
				site = fr.fn.Name() + "/" + site
			}
			st.e.addObligation(st, st.u, "cover", "invariant-satisfiable", site, TFalse, st.u.c.Props, "loop invariant", true)
		}
	}
}

// havocLoop forgets everything the loop may modify.
func (st *State) havocLoop(fr *Frame, li *loopInfo) {
	for _, in := range li.head.Instrs {
		p, ok := in.(*ssa.Phi)
		if !ok {
			break
		}
		name := p.Comment
		if name == "" {
			name = p.Name()
		}
		fr.vals[p] = st.freshVal("l."+name, p.Type())
	}
	// map iterators used in this loop: havoc visited set
	for _, in := range li.head.Instrs {
		if nx, ok := in.(*ssa.Next); ok {
			if it, ok := fr.vals[nx.Iter].(*MapIterV); ok && !it.IsStr {
				nit := *it
				vs := st.fresh("visited", ArrS(st.e.leaves(it.KeyT)[0].Sort, SBool))
				nit.Visited = vs.S
				fr.vals[nx.Iter] = &nit
			} else if ok && it.IsStr {
				// string range: the byte position reached so far is arbitrary (the invariant says what is known of it)
				nit := *it
				np := st.fresh("strpos", SInt)
				st.assume(And(Ge(np, IntLit(0)), Le(np, st.strLen(it.Str))))
				nit.Pos = np.S
				fr.vals[nx.Iter] = &nit
			}
		}
	}
	var pats []string
	all := false
	if li.spec != nil && li.spec.HasMods {
		pats = li.spec.Mods
	} else {
		pats, all = st.e.modSetBlocks(st, li.fn, li.body, 0, map[*ssa.Function]bool{})
	}
	if os.Getenv("GOVC_DEBUG") != "" {
		fmt.Fprintf(os.Stderr, "LOOP-HAVOC %s loop %d: all=%v %v\n", st.u.name, li.ordinal, all, pats)
	}
	if li.spec != nil {
		for _, g := range li.spec.Ghost {
			pats = append(pats, "S:"+g.Name)
		}
	}
	if all {
		st.havoc(nil, nil)
	} else if len(pats) > 0 {
		// patterns marked alloc!: arrays in which the loop body only writes objects it allocates itself
		var mods, allocs []string
		for _, p := range pats {
			if strings.HasPrefix(p, "alloc!") {
				allocs = append(allocs, strings.TrimPrefix(p, "alloc!"))
			} else {
				mods = append(mods, p)
			}
		}
		if len(mods) > 0 {
			st.havoc(mods, nil)
		}
		if len(allocs) > 0 {
			st.havocFresh(allocs)
		}
	}
}

func (st *State) execInstrs(fr *Frame, b *ssa.BasicBlock, i int) {
	for ; i < len(b.Instrs); i++ {
		st.steps++
		if st.steps > maxSteps {
			st.unsupported("step limit exceeded")
		}
		if st.steps%512 == 0 && !st.u.deadline.IsZero() && time.Now().After(st.u.deadline) {
			st.unsupported("verification-condition generation for this unit exceeded its time budget (too many paths): add contracts for callees or split the function")
		}
		if st.u.paths > st.e.maxPaths {
			st.u.truncated = true
			st.unsupported("path limit (%d) exceeded: add a cut point or contracts for callees", st.e.maxPaths)
		}
		in := b.Instrs[i]
		switch x := in.(type) {
		case *ssa.If:
			c := st.scalar(st.val(fr, x.Cond))
			c = st.foldKnown(c)
			if isTrue(c) {
				st.execBlock(fr, b.Succs[0], b)
				return
			}
			if isFalse(c) {
				st.execBlock(fr, b.Succs[1], b)
				return
			}
			if st.tryMergeDiamond(fr, b, c) {
				return
			}
			st2 := st.clone()
			fr2 := st2.frames[len(st2.frames)-1]
			st.assume(c)
			st.tr("b%d:T", b.Index)
			st.execBlock(fr, b.Succs[0], b)
			st2.assume(Not(c))
			st2.tr("b%d:F", b.Index)
			st2.execBlock(fr2, b.Succs[1], b)
			return
		case *ssa.Jump:
			st.execBlock(fr, b.Succs[0], b)
			return
		case *ssa.Return:
			var results []SVal
			for _, r := range x.Results {
				results = append(results, st.val(fr, r))
			}
			if fr.isUnit {
				st.ghostObj["$retinstr"] = ssa.Instruction(x)
			}
			fr.ret(st, results)
			return
		case *ssa.Panic:
			st.panicAt(fr, x, "explicit", TFalse)
			return
		case *ssa.RunDefers:
			i2 := i
			st.runDefers(fr, func(st *State) {
				fr := st.frames[len(st.frames)-1]
				st.execInstrs(fr, b, i2+1)
			})
			return
		case ssa.CallInstruction:
			if _, isDefer := in.(*ssa.Defer); isDefer {
				st.execDefer(fr, in.(*ssa.Defer))
				continue
			}
			if g, isGo := in.(*ssa.Go); isGo {
				st.execGo(fr, g)
				continue
			}
			i2 := i
			call := in.(*ssa.Call)
			st.execCall(fr, call, func(st *State, res SVal) {
				fr := st.frames[len(st.frames)-1]
				if res != nil {
					fr.vals[call] = res
				}
				st.execInstrs(fr, b, i2+1)
			})
			return
		default:
			if st.execSimple(fr, in) {
				// path ended (e.g. infeasible)
				return
			}
		}
	}
}

// tryMergeDiamond executes "if c { simple block }" (or a two-armed diamond of simple blocks) without
// forking the path: the arm's instructions are run under guard c, stores become conditional stores and the
// phis of the join block select by c. An arm is simple when it contains only loads, stores, field
// addresses of known non-nil bases, arithmetic and conversions and jumps straight to the join block.
func (st *State) tryMergeDiamond(fr *Frame, b *ssa.BasicBlock, c *Term) bool {
	t, f := b.Succs[0], b.Succs[1]
	var join *ssa.BasicBlock
	var arms []*ssa.BasicBlock // arms[0] executed when c, arms[1] when !c (nil = empty arm)
	simpleArm := func(x, j *ssa.BasicBlock) bool {
		return len(x.Preds) == 1 && len(x.Succs) == 1 && x.Succs[0] == j && st.loopAt(fr, x) == nil
	}
	switch {
	case simpleArm(t, f) && st.loopAt(fr, f) == nil:
		join, arms = f, []*ssa.BasicBlock{t, nil}
	case simpleArm(f, t) && st.loopAt(fr, t) == nil:
		join, arms = t, []*ssa.BasicBlock{nil, f}
	case len(t.Succs) == 1 && len(f.Succs) == 1 && t.Succs[0] == f.Succs[0] && simpleArm(t, t.Succs[0]) && simpleArm(f, t.Succs[0]) && st.loopAt(fr, t.Succs[0]) == nil:
		join, arms = t.Succs[0], []*ssa.BasicBlock{t, f}
	default:
		return false
	}
	if len(join.Preds) != 2 {
		return false
	}
	for _, a := range arms {
		if a != nil && !st.armIsSimple(fr, a) {
			return false
		}
	}
	// run the arms under their guards
	guards := []*Term{c, Not(c)}
	for i, a := range arms {
		if a == nil {
			continue
		}
		st.bindPhis(fr, a, b)
		for _, in := range a.Instrs {
			switch x := in.(type) {
			case *ssa.Jump, *ssa.DebugRef:
				if d, ok := in.(*ssa.DebugRef); ok {
					st.execSimple(fr, d)
				}
			case *ssa.Store:
				pt := x.Addr.Type().Underlying().(*types.Pointer).Elem()
				addr := st.ptrAddr(st.val(fr, x.Addr), pt)
				cur := st.load(st.heap, addr)
				st.store(addr, st.iteVal(guards[i], st.val(fr, x.Val), cur, pt))
			default:
				st.execSimple(fr, in)
			}
		}
	}
	// phis of the join block
	var phis []*ssa.Phi
	var vals []SVal
	for _, in := range join.Instrs {
		p, ok := in.(*ssa.Phi)
		if !ok {
			break
		}
		var vt, vf SVal
		for pi, pred := range join.Preds {
			var fromTrue bool
			switch {
			case arms[0] != nil && pred == arms[0]:
				fromTrue = true
			case arms[1] != nil && pred == arms[1]:
				fromTrue = false
			case pred == b:
				fromTrue = arms[0] == nil
			default:
				return false
			}
			if fromTrue {
				vt = st.val(fr, p.Edges[pi])
			} else {
				vf = st.val(fr, p.Edges[pi])
			}
		}
		phis = append(phis, p)
		vals = append(vals, st.iteVal(c, vt, vf, p.Type()))
	}
	for i, p := range phis {
		fr.vals[p] = vals[i]
	}
	st.tr("b%d:M", b.Index)
	st.execInstrs(fr, join, firstNonPhi(join))
	return true
}

func (st *State) armIsSimple(fr *Frame, a *ssa.BasicBlock) bool {
	known := map[ssa.Value]bool{}
	nonNil := func(v ssa.Value) bool {
		if known[v] {
			return true
		}
		sv, ok := fr.vals[v]
		if !ok {
			return false
		}
		switch x := sv.(type) {
		case *AddrV:
			return true
		case *Term:
			return st.freshRefs[x.S] || st.nonzero[x.S]
		}
		return false
	}
	for _, in := range a.Instrs {
		switch x := in.(type) {
		case *ssa.Jump, *ssa.DebugRef, *ssa.Phi:
		case *ssa.FieldAddr:
			if !nonNil(x.X) {
				return false
			}
			known[x] = true
		case *ssa.Store:
			if !nonNil(x.Addr) {
				return false
			}
			if _, isStruct := x.Val.Type().Underlying().(*types.Struct); isStruct && !isOpaque(x.Val.Type()) {
				return false
			}
		case *ssa.UnOp:
			if x.Op == token.MUL {
				if !nonNil(x.X) {
					return false
				}
				if _, isStruct := x.Type().Underlying().(*types.Struct); isStruct && !isOpaque(x.Type()) {
					return false
				}
			} else if x.Op == token.ARROW {
				return false
			}
		case *ssa.BinOp:
			if x.Op == token.QUO || x.Op == token.REM {
				return false
			}
		case *ssa.Convert, *ssa.ChangeType, *ssa.Field, *ssa.Extract:
		default:
			return false
		}
	}
	return true
}

// foldKnown decides branch conditions of the form x == 0 / x != 0 for values known to be non-zero on
// this path (freshly produced errors, allocated references): infeasible continuations are not explored.
func (st *State) foldKnown(c *Term) *Term {
	s := c.S
	neg := false
	if strings.HasPrefix(s, "(not ") {
		neg = true
		s = s[5 : len(s)-1]
	}
	if strings.HasPrefix(s, "(= ") && strings.HasSuffix(s, " 0)") {
		x := s[3 : len(s)-3]
		if st.nonzero[x] || st.freshRefs[x] {
			return BoolLit(neg)
		}
	}
	return c
}

// panicAt records a potential panic. cond is the condition under which the
// program does NOT panic (TFalse for an explicit panic instruction).
func (st *State) panicAt(fr *Frame, in ssa.Instruction, what string, ok *Term) {
	u := st.u
	ok = st.foldKnown(ok)
	if isTrue(ok) {
		return
	}
	defer func() {
		// once checked (or assumed) on this path, the same pointer need not be checked again
		if strings.HasPrefix(ok.S, "(not (= ") && strings.HasSuffix(ok.S, " 0))") {
			if st.nonzero == nil {
				st.nonzero = map[string]bool{}
			}
			st.nonzero[ok.S[8:len(ok.S)-4]] = true
		}
	}()
	if u.c.NoPanic {
		site := st.siteName(fr, in, what)
		st.e.addObligation(st, u, "nopanic", what, site, ok, u.c.Props, what, false)
	}
	if isFalse(ok) {
		u.paths++
		return
	}
	st.assume(ok)
}

// siteName names an instruction site in a way that is stable under edits
// elsewhere: kind + ordinal among same-kind instructions of the function in
// source order, qualified by the inlined function when not the unit itself.
func (st *State) siteName(fr *Frame, in ssa.Instruction, what string) string {
	fn := fr.fn
	n := 0
	ord := 0
	for _, b := range fn.Blocks {
		for _, x := range b.Instrs {
			if sameSiteKind(x, in) {
				n++
				if x == in {
					ord = n
				}
			}
		}
	}
	name := fmt.Sprintf("%s.%d", siteKind(in), ord)
	if !fr.isUnit {
		name = fn.Name() + "/" + name
	}
	return name
}

func siteKind(in ssa.Instruction) string {
	switch x := in.(type) {
	case *ssa.FieldAddr:
		return "field." + x.X.Type().Underlying().(*types.Pointer).Elem().Underlying().(*types.Struct).Field(x.Field).Name()
	case *ssa.IndexAddr:
		return "index"
	case *ssa.Index:
		return "index"
	case *ssa.UnOp:
		return "deref"
	case *ssa.Store:
		return "store"
	case *ssa.Slice:
		return "slice"
	case *ssa.TypeAssert:
		return "assert"
	case *ssa.MapUpdate:
		return "mapupdate"
	case *ssa.Panic:
		return "panic"
	case *ssa.BinOp:
		return "div"
	case *ssa.Call:
		return "call." + calleeName(x.Common())
	case *ssa.Convert:
		return "convert"
	}
	return fmt.Sprintf("%T", in)
}

func sameSiteKind(a, b ssa.Instruction) bool { return siteKind(a) == siteKind(b) }

// ---------------------------------------------------------------------------
// modset computation (syntactic)

func (e *Engine) modSetBlocks(st *State, fn *ssa.Function, blocks map[*ssa.BasicBlock]bool, depth int, seen map[*ssa.Function]bool) (pats []string, all bool) {
	return e.modSetBlocksB(st, fn, blocks, depth, seen, nil)
}

// modSetBlocksB: bind maps function-valued parameters of fn to the function literals passed for them by the call being
// followed (callbacks handed down by the unit itself).
func (e *Engine) modSetBlocksB(st *State, fn *ssa.Function, blocks map[*ssa.BasicBlock]bool, depth int, seen map[*ssa.Function]bool, bind map[ssa.Value]*ssa.Function) (pats []string, all bool) {
	add := func(p string) { pats = append(pats, p) }
	for _, b := range fn.Blocks {
		if blocks != nil && !blocks[b] {
			continue
		}
		for _, in := range b.Instrs {
			switch x := in.(type) {
			case *ssa.Store:
				if blocks != nil && allocatedIn(x.Addr, blocks) {
					continue // a cell of an object allocated inside the loop: not visible after the iteration
				}
				if isVarargsCell(x.Addr) {
					continue // the argument array of a variadic call: fresh, only the callee sees it
				}
				if k, ok := storeTarget(x.Addr); ok {
					add(k)
				} else {
					return e.modAll(fn, in)
				}
			case *ssa.Send:
				add("S:chan_sent")
			case *ssa.Select:
				for _, ss := range x.States {
					if ss.Dir == types.RecvOnly {
						add("S:chan_recvd")
					} else {
						add("S:chan_sent")
					}
				}
			case *ssa.UnOp:
				if x.Op == token.ARROW {
					add("S:chan_recvd")
				}
			case *ssa.MapUpdate:
				mt := x.Map.Type().Underlying().(*types.Map)
				base := shortenType(typeKey(mt.Key())) + ":" + shortenType(typeKey(mt.Elem()))
				add("MH:" + base)
				add("MV:" + base + ":*")
				add("MV:" + base + ":")
			case ssa.CallInstruction:
				if _, isGo := x.(*ssa.Go); isGo {
					continue // another goroutine: its writes are interference, not part of this unit's frame
				}
				c := x.Common()
				if bi, ok := c.Value.(*ssa.Builtin); ok {
					switch bi.Name() {
					case "delete":
						mt := c.Args[0].Type().Underlying().(*types.Map)
						add("MH:" + shortenType(typeKey(mt.Key())) + ":" + shortenType(typeKey(mt.Elem())))
					case "append", "copy":
						if sl, ok := c.Args[0].Type().Underlying().(*types.Slice); ok {
							add("E:" + shortenType(typeKey(sl.Elem())) + ":*")
							add("E:" + shortenType(typeKey(sl.Elem())) + ":")
						}
					case "close":
						add("S:closed")
					}
					continue
				}
				callee := c.StaticCallee()
				if callee == nil {
					if mk, ok := c.Value.(*ssa.MakeClosure); ok {
						callee = mk.Fn.(*ssa.Function)
					}
				}
				if callee == nil && bind != nil && bind[c.Value] != nil {
					callee = bind[c.Value]
				}
				if callee == nil && st != nil {
					// a function-valued parameter or captured variable that the current call stack binds to a known
					// function literal (a callback handed down by the unit itself)
					if fv := st.boundFunc(fn, c.Value); fv != nil {
						callee = fv
					}
				}
				if callee == nil {
					if c.IsInvoke() && (e.isSkippedIface(c) || pureExternal("invoke "+typeKey(c.Value.Type())+"."+c.Method.Name())) {
						continue
					}
					if ct := e.dynContract(c); ct != nil {
						if ct.HasMods {
							pats = append(pats, ct.Modifies...)
							pats = append(pats, allocMarked(ct.Allocates)...)
							continue
						}
						continue
					}
					if !c.IsInvoke() {
						if ct, ok := e.specs.Contracts[dynCallKey(c)]; ok {
							pats = append(pats, ct.Modifies...)
							pats = append(pats, allocMarked(ct.Allocates)...)
							continue
						}
					}
					return e.modAll(fn, in)
				}
				key := fnKey(callee)
				if ct, ok := e.specs.Contracts[key]; ok && !ct.Inline {
					pats = append(pats, ct.Modifies...)
					pats = append(pats, allocMarked(ct.Allocates)...)
					continue
				}
				if m, ok := e.entModset(callee); ok {
					pats = append(pats, m...)
					continue
				}
				if intr, ok := intrinsics[callee.String()]; ok {
					bad := false
					for _, m := range intr.mods {
						if m == "$arg0" {
							if k, ok := storeTarget(c.Args[0]); ok {
								add(k)
							} else {
								bad = true
							}
						} else {
							add(m)
						}
					}
					if bad {
						return e.modAll(fn, in)
					}
					continue
				}
				if e.isSkipped(callee) || pureExternal(callee.String()) || genericPure(callee) {
					continue
				}
				if e.inModule(callee) && callee.Blocks != nil && seen[callee] {
					continue // already accounted for
				}
				if e.inModule(callee) && callee.Blocks != nil && depth < 4 {
					seen[callee] = true
					var nb map[ssa.Value]*ssa.Function
					for i, a := range c.Args {
						var f *ssa.Function
						switch x := a.(type) {
						case *ssa.MakeClosure:
							f, _ = x.Fn.(*ssa.Function)
						case *ssa.Function:
							f = x
						}
						off := 0
						if callee.Signature.Recv() != nil && !c.IsInvoke() {
							off = 0 // receiver is Args[0] and Params[0] alike
						}
						if f != nil && i+off < len(callee.Params) {
							if nb == nil {
								nb = map[ssa.Value]*ssa.Function{}
							}
							nb[callee.Params[i+off]] = f
						}
					}
					p2, a2 := e.modSetBlocksB(st, callee, nil, depth+1, seen, nb)
					if a2 {
						return e.modAll(fn, in)
					}
					pats = append(pats, p2...)
					continue
				}
				return e.modAll(fn, in)
			}
		}
	}
	return pats, false
}

// genericPure: callees handled by genericIntrinsic, none of which writes memory.
func genericPure(callee *ssa.Function) bool {
	n := callee.Name()
	if strings.HasPrefix(n, "Get") && callee.Signature.Recv() != nil && len(callee.Params) == 1 && isProtoPkg(callee) {
		return true
	}
	return strings.HasPrefix(n, "ParseString") && strings.Contains(callee.String(), "participle/v2.Parser")
}

// boundFunc: v is a parameter (or free variable) of fn, and some frame of the current call stack executing fn binds it
// to a known function.
func (st *State) boundFunc(fn *ssa.Function, v ssa.Value) *ssa.Function {
	for i := len(st.frames) - 1; i >= 0; i-- {
		fr := st.frames[i]
		if fr.fn != fn {
			continue
		}
		switch x := v.(type) {
		case *ssa.Parameter:
			if fv, ok := fr.vals[x].(*FuncV); ok && fv.Fn != nil {
				return fv.Fn
			}
		case *ssa.FreeVar:
			for j, f := range fn.FreeVars {
				if f == x && j < len(fr.bindings) {
					if fv, ok := fr.bindings[j].(*FuncV); ok && fv.Fn != nil {
						return fv.Fn
					}
				}
			}
		}
		return nil
	}
	return nil
}

func allocMarked(ps []string) []string {
	out := make([]string, 0, len(ps))
	for _, p := range ps {
		out = append(out, "alloc!"+p)
	}
	return out
}

func (e *Engine) modAll(fn *ssa.Function, in ssa.Instruction) ([]string, bool) {
	if os.Getenv("GOVC_DEBUG") != "" {
		fmt.Fprintf(os.Stderr, "MODSET-ALL in %s because of: %s\n", fn.Name(), in.String())
	}
	return nil, true
}

// entModset: what a call into generated ent code (or ent's sql builder) may modify: builder methods touch
// engine-side builder objects only; terminals touch tables, the failure flag and allocate result objects.
func (e *Engine) entModset(callee *ssa.Function) ([]string, bool) {
	if e.ent == nil {
		return nil, false
	}
	pkg := callee.Package()
	if pkg == nil {
		if o := callee.Origin(); o != nil {
			pkg = o.Package()
		}
	}
	if pkg == nil {
		return nil, false
	}
	path := pkg.Pkg.Path()
	if path == "entgo.io/ent/dialect/sql" || strings.HasPrefix(path, e.modPath+"/ent/") {
		return nil, true
	}
	if path != e.modPath+"/ent" {
		return nil, false
	}
	if pos := callee.Pos(); pos.IsValid() && e.fset != nil && strings.HasSuffix(e.fset.Position(pos).Filename, "-addons.go") {
		return nil, false
	}
	if callee.Signature.Recv() != nil {
		if m := entRecvRe.FindStringSubmatch(typeKey(callee.Signature.Recv().Type())); m != nil && (m[2] == "Update" || m[2] == "UpdateOne") {
			n := callee.Name()
			if strings.HasPrefix(n, "Set") || strings.HasPrefix(n, "Clear") || strings.HasPrefix(n, "Add") {
				return []string{"UB:*"}, true
			}
		}
	}
	kind := ""
	if callee.Signature.Recv() != nil {
		if m := entRecvRe.FindStringSubmatch(typeKey(callee.Signature.Recv().Type())); m != nil {
			kind = m[2]
		}
	}
	switch strings.TrimSuffix(callee.Name(), "X") {
	case "All", "Only", "First", "Get":
		if kind == "Query" || kind == "Client" {
			// a query changes no table; it allocates entities and the boxed / sliced values of their columns
			return append([]string{"S:dbfailed"}, allocMarked(e.entAllocPats())...), true
		}
		return []string{"T:*", "S:dbfailed", "CB:*", "F:ent.*", "B:*", "E:*"}, true
	case "IDs", "OnlyID", "FirstID":
		if kind == "Query" {
			return []string{"S:dbfailed", "E:uuid.UUID:*", "E:uuid.UUID:"}, true
		}
		return []string{"T:*", "S:dbfailed", "CB:*", "F:ent.*", "B:*", "E:*"}, true
	case "Count", "Exist":
		if kind == "Query" {
			return []string{"S:dbfailed"}, true
		}
		return []string{"T:*", "S:dbfailed", "CB:*", "F:ent.*", "B:*", "E:*"}, true
	case "Scan":
		return []string{"S:dbfailed", "F:ent.*", "B:*", "E:*"}, true
	case "Save", "Exec":
		if (kind == "Update" || kind == "UpdateOne") && callee.Name() == "Exec" {
			// an UPDATE that returns nothing: rows of its own table only
			if m := entRecvRe.FindStringSubmatch(typeKey(callee.Signature.Recv().Type())); m != nil {
				if t := e.ent.ByEntity[m[1]]; t != nil {
					return []string{"T:" + t.Name + ":*", "S:dbfailed"}, true
				}
			}
		}
		if (kind == "Delete" || kind == "DeleteOne") && callee.Name() == "Exec" {
			return []string{"T:*", "S:dbfailed"}, true
		}
		return append([]string{"T:*", "S:dbfailed", "CB:*"}, allocMarked(e.entAllocPats())...), true
	case "OnCommit", "OnRollback":
		return []string{"S:wake_on_commit"}, true
	}
	return nil, true
}

// entAllocPats: the heap arrays in which entities returned by ent live (entity structs, slices of entity
// pointers, boxed nillable columns, JSON slices and maps).
func (e *Engine) entAllocPats() []string {
	if e.entAlloc != nil {
		return e.entAlloc
	}
	seen := map[string]bool{}
	out := []string{"F:ent.*", "E:*ent.*"}
	add := func(p string) {
		if !seen[p] {
			seen[p] = true
			out = append(out, p)
		}
	}
	for _, t := range e.ent.Tables {
		for _, c := range t.Cols {
			vt := c.GoType
			if pt, ok := vt.Underlying().(*types.Pointer); ok {
				vt = pt.Elem()
				add("B:" + shortenType(typeKey(vt)) + ":*")
			}
			switch u := vt.Underlying().(type) {
			case *types.Slice:
				add("E:" + shortenType(typeKey(u.Elem())) + ":*")
				add("E:" + shortenType(typeKey(u.Elem())) + ":")
			case *types.Map:
				base := shortenType(typeKey(u.Key())) + ":" + shortenType(typeKey(u.Elem()))
				add("MH:" + base)
				add("MV:" + base + ":*")
				add("MV:" + base + ":")
			}
		}
	}
	sort.Strings(out[2:])
	e.entAlloc = out
	return out
}

func isVarargsCell(addr ssa.Value) bool {
	if ia, ok := addr.(*ssa.IndexAddr); ok {
		if al, ok := ia.X.(*ssa.Alloc); ok && al.Comment == "varargs" {
			return true
		}
	}
	return false
}

// allocatedIn: the address is a cell of an object allocated (by an Alloc instruction) in one of the blocks.
func allocatedIn(addr ssa.Value, blocks map[*ssa.BasicBlock]bool) bool {
	for i := 0; i < 8; i++ {
		switch a := addr.(type) {
		case *ssa.FieldAddr:
			addr = a.X
		case *ssa.IndexAddr:
			addr = a.X
		case *ssa.Alloc:
			return blocks[a.Block()]
		default:
			return false
		}
	}
	return false
}

// storeTarget maps a store address to a modifies pattern.
func storeTarget(addr ssa.Value) (string, bool) {
	switch a := addr.(type) {
	case *ssa.FieldAddr:
		pt := a.X.Type().Underlying().(*types.Pointer).Elem()
		su := pt.Underlying().(*types.Struct)
		fname := su.Field(a.Field).Name()
		// nested: X is itself a FieldAddr of an embedded struct value
		if inner, ok := a.X.(*ssa.FieldAddr); ok {
			if p, ok := storeTarget(inner); ok {
				return strings.TrimSuffix(p, "*") + "." + fname + "*", true
			}
			return "", false
		}
		if inner, ok := a.X.(*ssa.IndexAddr); ok {
			if p, ok := storeTarget(inner); ok {
				return strings.TrimSuffix(strings.TrimSuffix(p, "*"), ":") + ":" + fname + "*", true
			}
			return "", false
		}
		return "F:" + shortenType(typeKey(pt)) + ":" + fname + "*", true
	case *ssa.IndexAddr:
		switch t := a.X.Type().Underlying().(type) {
		case *types.Slice:
			return "E:" + shortenType(typeKey(t.Elem())) + ":*", true
		}
		return "", false
	case *ssa.Alloc:
		t := a.Type().Underlying().(*types.Pointer).Elem()
		if _, ok := t.Underlying().(*types.Struct); ok && !isOpaque(t) {
			return "F:" + shortenType(typeKey(t)) + ":*", true
		}
		return "B:" + shortenType(typeKey(t)) + ":*", true
	case *ssa.Global:
		return "G:" + shortenType(a.Pkg.Pkg.Path()+"."+a.Name()) + ":*", true
	case *ssa.FreeVar, *ssa.Parameter, *ssa.UnOp, *ssa.Call, *ssa.Phi, *ssa.Extract:
		t, ok := addr.Type().Underlying().(*types.Pointer)
		if !ok {
			return "", false
		}
		el := t.Elem()
		if _, ok := el.Underlying().(*types.Struct); ok && !isOpaque(el) {
			return "F:" + shortenType(typeKey(el)) + ":*", true
		}
		return "B:" + shortenType(typeKey(el)) + ":*", true
	}
	return "", false
}

func (e *Engine) inModule(fn *ssa.Function) bool {
	p := fn.Package()
	if p == nil {
		if o := fn.Origin(); o != nil {
			p = o.Package()
		}
	}
	if p == nil {
		return false
	}
	return p.Pkg.Path() == e.modPath || strings.HasPrefix(p.Pkg.Path(), e.modPath+"/")
}

var skipPkgs = []string{
	"github.com/rs/zerolog", "github.com/prometheus/", "go.6river.tech/mmmbbb/logging", "log", "expvar",
}

func (e *Engine) isSkipped(fn *ssa.Function) bool {
	p := fn.Package()
	if p == nil {
		if o := fn.Origin(); o != nil {
			p = o.Package()
		}
	}
	if p == nil {
		return false
	}
	path := p.Pkg.Path()
	for _, s := range skipPkgs {
		if path == s || strings.HasPrefix(path, s) {
			return true
		}
	}
	return false
}

func (e *Engine) isSkippedIface(c *ssa.CallCommon) bool {
	t := c.Value.Type()
	if n, ok := t.(*types.Named); ok && n.Obj().Pkg() != nil {
		path := n.Obj().Pkg().Path()
		for _, s := range skipPkgs {
			if path == s || strings.HasPrefix(path, s) {
				return true
			}
		}
	}
	return false
}

// dynContract finds a contract for an interface method or func-typed field call.
func (e *Engine) dynContract(c *ssa.CallCommon) *Contract {
	if c.IsInvoke() {
		if n, ok := c.Value.Type().(*types.Named); ok && n.Obj().Pkg() != nil {
			key := n.Obj().Pkg().Path() + "." + n.Obj().Name() + "." + c.Method.Name()
			if ct, ok := e.specs.Contracts[key]; ok {
				return ct
			}
		}
	}
	return nil
}
