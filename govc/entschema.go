package main

import (
	"fmt"
	"go/ast"
	"go/constant"
	"go/parser"
	"go/token"
	"go/types"
	"path/filepath"
	"strconv"
	"strings"
)

// The relational schema, read mechanically on every run from the generated
// code in /repo/ent: column names and nullability and foreign keys from
// ent/migrate/schema.go, column <-> entity field mapping from the Field*
// constants of ent/<entity> and the entity struct types.

type entCol struct {
	Name     string // SQL column
	Field    string // entity struct field
	GoType   types.Type
	Nullable bool
	Sort     Sort
	FieldIdx int
	Ptr      bool       // entity field is a pointer (nillable)
	Slice    types.Type // element type when the column holds a JSON slice/bytes
}

type entFK struct {
	Col      string
	RefTable string
	OnDelete string // NoAction, SetNull, Cascade
}

type entEdge struct {
	Name    string // e.g. Subscription
	M2O     bool   // FK column is on this table
	FKTable string
	FKCol   string
	Target  string // neighbour table
	Field   string // Edges struct field
}

type entTable struct {
	Name   string // deliveries
	Pkg    string // go.6river.tech/mmmbbb/ent/delivery
	Entity string // Delivery
	Named  types.Type
	Struct *types.Struct
	Cols   []*entCol
	ByName map[string]*entCol
	ByFld  map[string]*entCol
	FKs    []entFK
	Edges  map[string]*entEdge
}

type entSchema struct {
	Tables   map[string]*entTable // by SQL name
	ByEntity map[string]*entTable // by entity name
}

func (e *Engine) loadEntSchema(repo string) error {
	if e.ent != nil {
		return nil
	}
	sch := &entSchema{Tables: map[string]*entTable{}, ByEntity: map[string]*entTable{}}
	// 1. migrate/schema.go
	fset := token.NewFileSet()
	f, err := parser.ParseFile(fset, filepath.Join(repo, "ent/migrate/schema.go"), nil, 0)
	if err != nil {
		return err
	}
	colVars := map[string][]*entCol{}   // DeliveriesColumns -> cols
	colVarTable := map[string]string{} // DeliveriesColumns -> table name
	type rawFK struct {
		colVar string
		colIdx int
		refVar string
		onDel  string
	}
	tblFKs := map[string][]rawFK{}
	for _, d := range f.Decls {
		gd, ok := d.(*ast.GenDecl)
		if !ok || gd.Tok != token.VAR {
			continue
		}
		for _, sp := range gd.Specs {
			vs := sp.(*ast.ValueSpec)
			for i, name := range vs.Names {
				if i >= len(vs.Values) {
					continue
				}
				switch {
				case strings.HasSuffix(name.Name, "Columns"):
					cl, ok := vs.Values[i].(*ast.CompositeLit)
					if !ok {
						continue
					}
					for _, el := range cl.Elts {
						c := &entCol{}
						for _, kv := range el.(*ast.CompositeLit).Elts {
							k := kv.(*ast.KeyValueExpr)
							switch k.Key.(*ast.Ident).Name {
							case "Name":
								c.Name, _ = strconv.Unquote(k.Value.(*ast.BasicLit).Value)
							case "Nullable":
								c.Nullable = k.Value.(*ast.Ident).Name == "true"
							}
						}
						colVars[name.Name] = append(colVars[name.Name], c)
					}
				case strings.HasSuffix(name.Name, "Table"):
					ue, ok := vs.Values[i].(*ast.UnaryExpr)
					if !ok {
						continue
					}
					cl := ue.X.(*ast.CompositeLit)
					t := &entTable{ByName: map[string]*entCol{}, ByFld: map[string]*entCol{}, Edges: map[string]*entEdge{}}
					colVar := ""
					for _, kv := range cl.Elts {
						k := kv.(*ast.KeyValueExpr)
						switch k.Key.(*ast.Ident).Name {
						case "Name":
							t.Name, _ = strconv.Unquote(k.Value.(*ast.BasicLit).Value)
						case "Columns":
							colVar = k.Value.(*ast.Ident).Name
						case "ForeignKeys":
							for _, fk := range k.Value.(*ast.CompositeLit).Elts {
								var r rawFK
								for _, kv2 := range fk.(*ast.CompositeLit).Elts {
									k2 := kv2.(*ast.KeyValueExpr)
									switch k2.Key.(*ast.Ident).Name {
									case "Columns":
										ix := k2.Value.(*ast.CompositeLit).Elts[0].(*ast.IndexExpr)
										r.colVar = ix.X.(*ast.Ident).Name
										r.colIdx, _ = strconv.Atoi(ix.Index.(*ast.BasicLit).Value)
									case "RefColumns":
										ix := k2.Value.(*ast.CompositeLit).Elts[0].(*ast.IndexExpr)
										r.refVar = ix.X.(*ast.Ident).Name
									case "OnDelete":
										r.onDel = k2.Value.(*ast.SelectorExpr).Sel.Name
									}
								}
								tblFKs[t.Name] = append(tblFKs[t.Name], r)
							}
						}
					}
					t.Cols = colVars[colVar]
					colVarTable[colVar] = t.Name
					for _, c := range t.Cols {
						t.ByName[c.Name] = c
					}
					sch.Tables[t.Name] = t
				}
			}
		}
	}
	for tn, fks := range tblFKs {
		t := sch.Tables[tn]
		for _, r := range fks {
			t.FKs = append(t.FKs, entFK{Col: colVars[r.colVar][r.colIdx].Name, RefTable: colVarTable[r.refVar], OnDelete: r.onDel})
		}
	}
	// 2. entity packages
	entPkg := e.tpkgs[e.modPath+"/ent"]
	if entPkg == nil {
		return fmt.Errorf("package %s/ent not loaded", e.modPath)
	}
	for path, p := range e.tpkgs {
		if !strings.HasPrefix(path, e.modPath+"/ent/") {
			continue
		}
		scope := p.Types.Scope()
		tc, ok := scope.Lookup("Table").(*types.Const)
		if !ok {
			continue
		}
		tname := constant.StringVal(tc.Val())
		t := sch.Tables[tname]
		if t == nil {
			continue
		}
		lbl, _ := scope.Lookup("Label").(*types.Const)
		_ = lbl
		t.Pkg = path
		// entity type: the struct in package ent whose lower-cased name is the package name
		for _, n := range entPkg.Types.Scope().Names() {
			if strings.EqualFold(n, p.Types.Name()) {
				if tn, ok := entPkg.Types.Scope().Lookup(n).(*types.TypeName); ok {
					if st, ok := tn.Type().Underlying().(*types.Struct); ok {
						t.Entity = n
						t.Named = tn.Type()
						t.Struct = st
					}
				}
			}
		}
		if t.Struct == nil {
			return fmt.Errorf("no entity struct for table %s", tname)
		}
		sch.ByEntity[t.Entity] = t
		for _, n := range scope.Names() {
			c, ok := scope.Lookup(n).(*types.Const)
			if !ok || !strings.HasPrefix(n, "Field") || c.Val().Kind() != constant.String {
				continue
			}
			col := t.ByName[constant.StringVal(c.Val())]
			if col == nil {
				continue
			}
			fname := strings.TrimPrefix(n, "Field")
			idx, ft := findField(t.Struct, fname)
			if idx < 0 {
				continue
			}
			col.Field, col.FieldIdx, col.GoType = fname, idx, ft
			t.ByFld[fname] = col
			vt := ft
			if pt, ok := ft.Underlying().(*types.Pointer); ok {
				col.Ptr = true
				vt = pt.Elem()
			}
			switch u := vt.Underlying().(type) {
			case *types.Slice:
				col.Slice = u.Elem()
				col.Sort = SInt
			case *types.Map:
				col.Sort = SInt
			default:
				ls := e.leaves(vt)
				if len(ls) != 1 {
					return fmt.Errorf("column %s.%s has a non-scalar type %s", tname, col.Name, typeKey(vt))
				}
				col.Sort = ls[0].Sort
			}
		}
		// edges: <Edge>Table / <Edge>Column / <Edge>InverseTable constants
		for _, n := range scope.Names() {
			if !strings.HasSuffix(n, "Column") || n == "Column" {
				continue
			}
			en := strings.TrimSuffix(n, "Column")
			cc, ok1 := scope.Lookup(n).(*types.Const)
			tc, ok2 := scope.Lookup(en + "Table").(*types.Const)
			if !ok1 || !ok2 {
				continue
			}
			ed := &entEdge{Name: en, FKCol: constant.StringVal(cc.Val()), FKTable: constant.StringVal(tc.Val()), Field: en}
			if inv, ok := scope.Lookup(en + "InverseTable").(*types.Const); ok {
				ed.Target = constant.StringVal(inv.Val())
			} else {
				ed.Target = tname // self edge
			}
			ed.M2O = ed.FKTable == tname
			if ed.Target == tname && ed.FKTable == tname {
				// self edge: the O2M direction is the one whose Edges field is a slice
				if es, ok := edgesStruct(t.Struct); ok {
					if i, ft := findField(es, en); i >= 0 {
						if _, isSlice := ft.Underlying().(*types.Slice); isSlice {
							ed.M2O = false
						}
					}
				}
			}
			t.Edges[en] = ed
		}
	}
	for _, t := range sch.Tables {
		if t.Struct == nil {
			return fmt.Errorf("table %s has no entity package", t.Name)
		}
		for _, c := range t.Cols {
			if c.Field == "" {
				return fmt.Errorf("column %s.%s has no entity field", t.Name, c.Name)
			}
		}
	}
	e.ent = sch
	return nil
}

func edgesStruct(su *types.Struct) (*types.Struct, bool) {
	i, ft := findField(su, "Edges")
	if i < 0 {
		return nil, false
	}
	es, ok := ft.Underlying().(*types.Struct)
	return es, ok
}

// tableKey names the ghost arrays of a table.
func tblKey(table, col string) string  { return "T|" + table + "|" + col }
func tblNull(table, col string) string { return "T|" + table + "|" + col + "$null" }
func tblLive(table string) string      { return "T|" + table + "|$live" }
