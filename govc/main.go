package main

import (
	"runtime"
	"go/types"
	"context"
	"encoding/json"
	"flag"
	"fmt"
	"os"
	"path/filepath"
	"regexp"
	"sort"
	"strings"
	"sync"
	"time"

	"golang.org/x/tools/go/packages"
	"golang.org/x/tools/go/ssa"
	"golang.org/x/tools/go/ssa/ssautil"
)

const modulePath = "go.6river.tech/mmmbbb"

func main() {
	if len(os.Args) < 2 {
		fmt.Fprintln(os.Stderr, "usage: govc check|list ...")
		os.Exit(2)
	}
	switch os.Args[1] {
	case "check":
		os.Exit(cmdCheck(os.Args[2:]))
	default:
		fmt.Fprintln(os.Stderr, "unknown command", os.Args[1])
		os.Exit(2)
	}
}

type checkOpts struct {
	repo, specDir, evidenceDir, replayDir, dumpDir, known string
	props                                                 []string
	tier                                                  string
	unit                                                  string
	seed                                                  int
	timeout                                               time.Duration
	verbose                                               bool
	jobs                                                  int
	bindings, recordBindings                              string
}

func cmdCheck(args []string) int {
	fs := flag.NewFlagSet("check", flag.ExitOnError)
	var o checkOpts
	var props string
	fs.StringVar(&o.repo, "repo", "/repo", "repository root")
	fs.StringVar(&o.specDir, "spec", "/verif/spec", "spec prelude directory")
	fs.StringVar(&o.evidenceDir, "evidence", "/verif/evidence", "evidence output directory")
	fs.StringVar(&o.replayDir, "replays", "/verif/replays", "replay output directory")
	fs.StringVar(&o.known, "known", "/verif/known_findings.json", "known findings file")
	fs.StringVar(&o.bindings, "bindings", "", "recorded types of the locals named by loop invariants (rename tolerance)")
	fs.StringVar(&o.recordBindings, "record-bindings", "", "write the types of the locals named by loop invariants to this file")
	fs.StringVar(&o.dumpDir, "dump", "", "dump SMT scripts to this directory")
	fs.StringVar(&props, "props", "", "comma separated property ids")
	fs.StringVar(&o.tier, "tier", "quick", "quick or thorough")
	fs.StringVar(&o.unit, "unit", "", "only units whose name contains this")
	fs.IntVar(&o.seed, "seed", 0, "seed (permutes dispatch order only)")
	fs.BoolVar(&o.verbose, "v", false, "verbose")
	fs.IntVar(&o.jobs, "j", 16, "parallel solver jobs")
	fs.Parse(args)
	if v := os.Getenv("VERIF_SEED"); v != "" {
		fmt.Sscanf(v, "%d", &o.seed)
	}
	if v := os.Getenv("VERIF_TIER"); v != "" && (v == "quick" || v == "thorough") {
		o.tier = v
	}
	o.props = splitList(props)
	o.timeout = 20 * time.Second
	if o.tier == "thorough" {
		o.timeout = 60 * time.Second
	}
	defer cleanupTmp()
	return runCheck(&o)
}

func contains(xs []string, x string) bool {
	for _, y := range xs {
		if x == y {
			return true
		}
	}
	return false
}

func intersects(a, b []string) bool {
	for _, x := range a {
		if contains(b, x) {
			return true
		}
	}
	return false
}

// contractProps lists every property a contract contributes to.
func contractProps(c *Contract) []string {
	ps := append([]string(nil), c.Props...)
	for _, cl := range c.Requires {
		ps = append(ps, cl.Props...)
	}
	for _, cl := range c.Ensures {
		ps = append(ps, cl.Props...)
	}
	for _, l := range c.Loops {
		for _, cl := range l.Invs {
			ps = append(ps, cl.Props...)
		}
	}
	return mergeProps(ps, nil)
}

func runCheck(o *checkOpts) int {
	start := time.Now()
	specs, err := loadSpecs(o.repo, o.specDir, modulePath)
	if err != nil {
		fmt.Fprintln(os.Stderr, "govc: specification error:", err)
		return 2
	}
	if len(specs.Assumes) > 0 {
		fmt.Fprintln(os.Stderr, "govc: forbidden assume clauses:", specs.Assumes)
		return 2
	}
	// units to verify
	var todo []*Contract
	pkgSet := map[string]bool{}
	for _, c := range specs.Order {
		if c.Trusted || c.Inline {
			continue
		}
		if len(o.props) > 0 && !intersects(contractProps(c), o.props) {
			continue
		}
		if o.unit != "" && !strings.Contains(c.Key(), o.unit) {
			continue
		}
		todo = append(todo, c)
		pkgSet[c.Pkg] = true
	}
	// contracts of other packages may be needed at call sites: load all packages having contracts
	for _, c := range specs.Order {
		pkgSet[c.Pkg] = true
	}
	for _, m := range specs.Modules {
		if m.Pkg != "" {
			pkgSet[m.Pkg] = true
		}
	}
	var patterns []string
	for p := range pkgSet {
		patterns = append(patterns, p)
	}
	needEnt := false
	for p := range pkgSet {
		if p == modulePath+"/actions" || p == modulePath+"/services" {
			needEnt = true
		}
	}
	if needEnt {
		patterns = append(patterns, modulePath+"/ent/...")
	}
	sort.Strings(patterns)
	loadStart := time.Now()
	cfg := &packages.Config{Mode: packages.LoadAllSyntax, Dir: o.repo, BuildFlags: []string{"-tags=verif"}, Env: append(os.Environ(), "GOFLAGS=-mod=mod", "GOPROXY=off")}
	pkgs, err := packages.Load(cfg, patterns...)
	if err != nil {
		fmt.Fprintln(os.Stderr, "govc: load error:", err)
		return 2
	}
	nerr := 0
	packages.Visit(pkgs, nil, func(p *packages.Package) {
		if strings.HasPrefix(p.PkgPath, modulePath) {
			for _, e := range p.Errors {
				fmt.Fprintln(os.Stderr, "govc: package error:", e)
				nerr++
			}
		}
	})
	if nerr > 0 {
		// the tree does not compile: nothing can be decided
		fmt.Fprintln(os.Stderr, "govc: repository does not type-check")
		return 2
	}
	prog, _ := ssautil.AllPackages(pkgs, ssa.InstantiateGenerics|ssa.GlobalDebug)
	prog.Build()
	loadSecs := time.Since(loadStart).Seconds()

	e := &Engine{prog: prog, spkgs: map[string]*ssa.Package{}, tpkgs: map[string]*packages.Package{}, specs: specs, modPath: modulePath,
		fnByKey: map[string]*ssa.Function{}, leafCache: map[string][]Leaf{}, keySort: map[string]Sort{}, keyIsRef: map[string]bool{}, typeIDs: map[string]int{},
		refAxioms: true, maxPaths: 30000, maxDepth: 4, unitBudget: 90 * time.Second,
		unmodel: map[string]map[string]bool{}, skipped: map[string]map[string]bool{}, inlined: map[string]map[string]bool{}, trustedCs: map[string]map[string]bool{}, intrUsed: map[string]map[string]bool{}, unitAssume: map[string]map[string]bool{}}
	packages.Visit(pkgs, nil, func(p *packages.Package) { e.tpkgs[p.PkgPath] = p })
	if o.bindings != "" {
		if b, err := os.ReadFile(o.bindings); err == nil {
			if err := json.Unmarshal(b, &e.bindings); err != nil {
				fmt.Fprintln(os.Stderr, "govc: bindings file:", err)
				return 2
			}
		}
	}
	if o.recordBindings != "" {
		e.recBindings = map[string]map[string]string{}
	}
	for _, sp := range prog.AllPackages() {
		e.spkgs[sp.Pkg.Path()] = sp
	}
	for fn := range ssautil.AllFunctions(prog) {
		if e.inModule(fn) {
			e.fnByKey[fnKey(fn)] = fn
		}
	}
	e.rebindClosures(specs)
	if len(pkgs) > 0 {
		e.fset = pkgs[0].Fset
	}
	if needEnt {
		if err := e.loadEntSchema(o.repo); err != nil {
			fmt.Fprintln(os.Stderr, "govc: cannot read the ent schema:", err)
			return 2
		}
	}

	var units []*Unit
	for _, c := range todo {
		fnKeyName := c.Key()
		if i := strings.Index(fnKeyName, "~"); i >= 0 {
			fnKeyName = fnKeyName[:i] // contract variant: same function, different semantics options
		}
		fn := e.fnByKey[fnKeyName]
		u := &Unit{c: c, name: shortUnit(c)}
		if c.Options["callee-preconditions"] == "assumed" {
			// only a variant may lean on the primary unit of the same function for the call preconditions
			if pc, ok := specs.Contracts[fnKeyName]; !ok || fnKeyName == c.Key() || pc.Trusted || pc.Inline {
				fmt.Fprintf(os.Stderr, "govc: specification error: %s: option callee-preconditions assumed needs a verified primary contract of the same function\n", c.Key())
				return 2
			}
		}
		if fn == nil {
			u.err = "binding: no function " + c.Key() + " in the current tree"
			if o.verbose {
				base := fnKeyName
				if i := strings.Index(base, "$"); i >= 0 {
					base = base[:i]
				}
				for k := range e.fnByKey {
					if strings.HasPrefix(k, base) {
						fmt.Println("  candidate:", k)
					}
				}
			}
		} else if fn.Blocks == nil {
			u.err = "binding: function " + c.Key() + " has no body"
		} else {
			u.fn = fn
			c.Bound = true
			e.verifyUnit(u)
		}
		units = append(units, u)
	}
	// inline contract blocks (loop invariants of closures) must still bind to a function
	for _, c := range specs.Order {
		if !c.Inline || (len(o.props) > 0 && !intersects(contractProps(c), o.props) && len(contractProps(c)) > 0) {
			continue
		}
		// a tag on an invariant of an inlined block must be a property of the enclosing unit, otherwise the obligation
		// would be generated under a property whose check never runs that unit
		if i := strings.Index(c.Key(), "$"); i >= 0 {
			if pc, ok := specs.Contracts[c.Key()[:i]]; ok {
				for _, l := range c.Loops {
					for _, inv := range l.Invs {
						for _, p := range inv.Props {
							if !contains(contractProps(pc), p) {
								fmt.Fprintf(os.Stderr, "govc: specification error: %s: invariant %q is tagged %s, which is not a property of %s\n", c.Key(), inv.Label, p, pc.Key())
								return 2
							}
						}
					}
				}
			}
		}
		if e.fnByKey[c.Key()] == nil && strings.HasPrefix(c.Pkg, modulePath) && e.spkgs[c.Pkg] != nil {
			u := &Unit{c: c, name: shortUnit(c), err: "binding: no function " + c.Key() + " in the current tree (inline contract)"}
			if len(c.Props) == 0 {
				// attribute to the enclosing function's properties
				base := c.Key()
				if i := strings.Index(base, "$"); i >= 0 {
					base = base[:i]
				}
				if pc, ok := specs.Contracts[base]; ok {
					u.c = &Contract{Pkg: c.Pkg, Func: c.Func, Props: contractProps(pc), Options: map[string]string{}}
				}
			}
			units = append(units, u)
		}
	}
	// lemmas of used modules
	lemmaUnits := e.lemmaObligations(o, todo)
	units = append(units, lemmaUnits...)
	genSecs := time.Since(start).Seconds() - loadSecs

	// solve
	solveStart := time.Now()
	e.solveAll(o)
	if o.verbose {
		fmt.Printf("timing: load %.1fs vcgen %.1fs solve %.1fs (%d obligations)\n", loadSecs, genSecs, time.Since(solveStart).Seconds(), len(e.obls))
	}

	return e.report(o, units, start, loadSecs, genSecs)
}

func shortUnit(c *Contract) string {
	p := c.Pkg
	if i := strings.LastIndex(p, "/"); i >= 0 {
		p = p[i+1:]
	}
	return p + "." + c.Func
}

func (e *Engine) lemmaObligations(o *checkOpts, todo []*Contract) []*Unit {
	used := map[string]bool{}
	var visit func(name string)
	visit = func(name string) {
		if used[name] {
			return
		}
		used[name] = true
		if m := e.specs.Modules[name]; m != nil {
			for _, i := range m.Imports {
				visit(i)
			}
		}
	}
	for _, c := range todo {
		for _, m := range c.Uses {
			visit(m)
		}
	}
	// modules that declare lemmas for requested properties directly
	for name, m := range e.specs.Modules {
		for _, l := range m.Lemmas {
			if len(o.props) == 0 || intersects(l.Props, o.props) {
				visit(name)
			}
		}
	}
	var names []string
	for n := range used {
		names = append(names, n)
	}
	sort.Strings(names)
	var units []*Unit
	for _, name := range names {
		m := e.specs.Modules[name]
		if m == nil || len(m.Lemmas) == 0 {
			continue
		}
		for _, l := range m.Lemmas {
			if len(o.props) > 0 && len(l.Props) > 0 && !intersects(l.Props, o.props) {
				continue
			}
			u := &Unit{name: "spec." + name, c: &Contract{Pkg: m.Pkg, Func: "lemma", Props: l.Props, Options: map[string]string{}}}
			func() {
				defer func() {
					if r := recover(); r != nil {
						if ue, ok := r.(unsupportedErr); ok {
							u.err = ue.msg
							return
						}
						panic(r)
					}
				}()
				st := e.newState(u)
				st.loadModules([]string{name})
				env := &Env{vars: map[string]envVar{}, cells: map[string]*AddrV{}, old: st.pre, cur: st.pre, pkg: m.Pkg}
				g := st.elabBool(env, l.E)
				e.addObligation(st, u, "lemma", l.Label, "spec", g, l.Props, l.Src, false)
			}()
			units = append(units, u)
		}
	}
	return units
}

func (e *Engine) solveAll(o *checkOpts) {
	if o.dumpDir != "" {
		os.MkdirAll(o.dumpDir, 0o755)
		for i, ob := range e.obls {
			os.WriteFile(filepath.Join(o.dumpDir, fmt.Sprintf("%04d-%s.smt2", i, sanitizeFile(ob.Name))), []byte(ob.FullScript()), 0o644)
		}
	}
	if len(o.props) > 0 {
		// obligations that only serve properties not asked for are not solved on this run
		var keep []*Obligation
		for _, ob := range e.obls {
			if intersects(ob.Props, o.props) {
				keep = append(keep, ob)
			}
		}
		e.obls = keep
	}
	{
		// thin out the return-site probes: first 2 and last 5 per (unit, site)
		bySite := map[string][]*Obligation{}
		for _, ob := range e.obls {
			if ob.Vacuity && strings.Contains(ob.Name, "#cover:return-reachable@") {
				bySite[ob.Name] = append(bySite[ob.Name], ob)
			}
		}
		drop := map[*Obligation]bool{}
		for _, l := range bySite {
			for i, ob := range l {
				if i >= 2 && i < len(l)-5 {
					drop[ob] = true
				}
			}
		}
		if len(drop) > 0 {
			var keep []*Obligation
			for _, ob := range e.obls {
				if !drop[ob] {
					keep = append(keep, ob)
				}
			}
			e.obls = keep
		}
	}
	e.solveSet(o, e.obls)
	// combined obligations that failed are replaced by their parts
	var extra []*Obligation
	for _, ob := range e.obls {
		if len(ob.Parts) > 0 && ob.Result.Status != "unsat" {
			ob.Skip = true
			extra = append(extra, ob.Parts...)
		}
	}
	if len(extra) > 0 {
		e.solveSet(o, extra)
		e.obls = append(e.obls, extra...)
	}
}

// solveSet decides a set of obligations. Phase A groups obligations that share the same assumptions
// (same path prefix) into one incremental z3 run (process start-up dominates otherwise); phase B re-runs
// every obligation that was not proved there on its own, racing all solvers, to obtain a model or a
// second opinion.
func (e *Engine) solveSet(o *checkOpts, obls []*Obligation) {
	groups := map[string][]*Obligation{}
	var order []string
	for _, ob := range obls {
		if ob.Goal == "true" && !ob.Vacuity {
			ob.Result = SolveResult{Status: "unsat", Solver: "simplifier"}
			continue
		}
		if _, ok := groups[ob.Prefix]; !ok {
			order = append(order, ob.Prefix)
		}
		groups[ob.Prefix] = append(groups[ob.Prefix], ob)
	}
	if o.seed != 0 {
		s := uint64(o.seed)*2862933555777941757 + 3037000493
		for i := len(order) - 1; i > 0; i-- {
			s = s*6364136223846793005 + 1442695040888963407
			j := int(s>>33) % (i + 1)
			order[i], order[j] = order[j], order[i]
		}
	}
	var wg sync.WaitGroup
	ch := make(chan string)
	var mu sync.Mutex
	var retry []*Obligation
	for w := 0; w < o.jobs; w++ {
		wg.Add(1)
		go func() {
			defer wg.Done()
			for prefix := range ch {
				g := groups[prefix]
				var covers, goals []*Obligation
				for _, ob := range g {
					if ob.Vacuity {
						covers = append(covers, ob)
					} else {
						goals = append(goals, ob)
					}
				}
				for _, ob := range covers {
					r := runSolver(context.Background(), solvers[0], ob.FullScript(), 1500*time.Millisecond)
					ob.Result, ob.Tried = r, []SolveResult{r}
				}
				if len(goals) == 0 {
					continue
				}
				if o.tier == "thorough" {
					mu.Lock()
					retry = append(retry, goals...)
					mu.Unlock()
					continue
				}
				var b strings.Builder
				b.WriteString(prefix)
				for _, ob := range goals {
					b.WriteString("(push 1)\n(assert (not " + ob.Goal + "))\n(check-sat)\n(pop 1)\n")
				}
				per := 3 * time.Second
				start := time.Now()
				res := runSolverBatch(solvers[0], b.String(), per, len(goals))
				el := time.Since(start).Seconds() / float64(len(goals))
				for i, ob := range goals {
					st := "unknown"
					if i < len(res) {
						st = res[i]
					}
					ob.Result = SolveResult{Status: st, Solver: "z3-new", Seconds: el}
					ob.Tried = []SolveResult{ob.Result}
					if st != "unsat" {
						mu.Lock()
						retry = append(retry, ob)
						mu.Unlock()
					}
				}
			}
		}()
	}
	for _, p := range order {
		ch <- p
	}
	close(ch)
	wg.Wait()
	if o.verbose {
		fmt.Printf("solve: %d groups, %d obligations retried individually\n", len(order), len(retry))
	}
	// phase B
	var wg2 sync.WaitGroup
	ch2 := make(chan *Obligation)
	for w := 0; w < o.jobs; w++ {
		wg2.Add(1)
		go func() {
			defer wg2.Done()
			for ob := range ch2 {
				ob.Result, ob.Tried = solve(ob.FullScript(), o.timeout, o.tier == "thorough")
			}
		}()
	}
	for _, ob := range retry {
		ch2 <- ob
	}
	close(ch2)
	wg2.Wait()
	// phase C: whatever is still undecided (no proof, no model) is tried once more on an otherwise idle machine,
	// one obligation at a time with a larger budget, so that a verdict never depends on the load of the host.
	// Bounded to two and a half minutes in total; obligations not reached keep their phase B verdict.
	budget, factor := 150*time.Second, 2
	overloaded := hostOverloaded()
	if overloaded {
		// other work is competing for the cores: every undecided verdict is suspect, and a second chance needs more
		// wall-clock time to mean the same amount of solver work
		budget, factor = 600*time.Second, 4
	}
	deadline := time.Now().Add(budget)
	// cheapest first, so that one expensive undecided obligation cannot starve the others of their second chance
	spent := func(ob *Obligation) float64 {
		t := 0.0
		for _, r := range ob.Tried {
			t += r.Seconds
		}
		return t
	}
	phaseC := append([]*Obligation(nil), retry...)
	sort.SliceStable(phaseC, func(i, j int) bool { return spent(phaseC[i]) < spent(phaseC[j]) })
	for _, ob := range phaseC {
		if ob.Result.Status == "unsat" || ob.Result.Status == "sat" || ob.Vacuity {
			continue
		}
		if time.Now().After(deadline) {
			break
		}
		// only verdicts that may be load dependent: some solver ran into (close to) its time limit
		slow := false
		for _, t := range ob.Tried {
			if t.Status == "timeout" || t.Status == "error" || t.Seconds >= 0.5*o.timeout.Seconds()/3 {
				slow = true
			}
		}
		if !slow && !overloaded {
			continue
		}
		r, tried := solve(ob.FullScript(), time.Duration(factor)*o.timeout, true)
		ob.Tried = append(ob.Tried, tried...)
		if r.Status == "unsat" || r.Status == "sat" {
			ob.Result = r
		}
	}
	if o.verbose {
		for _, ob := range retry {
			var tried []string
			for _, t := range ob.Tried {
				tried = append(tried, fmt.Sprintf("%s=%s(%.1fs)", t.Solver, t.Status, t.Seconds))
			}
			fmt.Printf("retried: %s -> %s %v\n", ob.Name, ob.Result.Status, tried)
		}
	}
}

// trustedAmong: the callee contracts that are assumed without a proof of their own (trusted / abstract).
func trustedAmong(specs *Specs, keys []string) []string {
	var out []string
	for _, k := range keys {
		if ct, ok := specs.Contracts[k]; ok && ct.Trusted {
			out = append(out, k)
		}
	}
	return out
}

// unreachableSites lists return sites all of whose probed paths are infeasible (expected for error branches a callee's
// contract rules out; a success return in this list means its postconditions were never really checked).
func unreachableSites(m map[string]*retGroup) []string {
	var out []string
	for name, g := range m {
		if g.sat == 0 && g.unknown == 0 && g.unsat > 0 {
			out = append(out, strings.Replace(name, "#cover:return-reachable@", " @ ", 1))
		}
	}
	sort.Strings(out)
	return out
}

type retGroup struct {
	sat, unsat, unknown int
	ob                  *Obligation
}

func sanitizeFile(s string) string {
	var b strings.Builder
	for _, c := range s {
		if c >= 'a' && c <= 'z' || c >= 'A' && c <= 'Z' || c >= '0' && c <= '9' || c == '.' || c == '-' || c == '_' || c == '#' || c == '@' {
			b.WriteRune(c)
		} else {
			b.WriteByte('_')
		}
	}
	if b.Len() > 120 {
		return b.String()[:120]
	}
	return b.String()
}

// ---------------------------------------------------------------------------
// Reporting

type knownFile struct {
	Open  []knownEntry `json:"open"`
	Fixed []fixedEntry `json:"fixed"`
}

type knownEntry struct {
	Property   string `json:"property"`
	Obligation string `json:"obligation"`
	What       string `json:"what"`
}

type fixedEntry struct {
	Property string `json:"property"`
	Commit   string `json:"commit"`
	What     string `json:"what"`
}

func setKeys(m map[string]bool) []string {
	var out []string
	for k := range m {
		out = append(out, k)
	}
	sort.Strings(out)
	return out
}

func (e *Engine) report(o *checkOpts, units []*Unit, start time.Time, loadSecs, genSecs float64) int {
	if o.recordBindings != "" {
		old := map[string]map[string]string{}
		if b, err := os.ReadFile(o.recordBindings); err == nil {
			json.Unmarshal(b, &old)
		}
		for k, m := range e.recBindings {
			old[k] = m
		}
		b, _ := json.MarshalIndent(old, "", " ")
		os.WriteFile(o.recordBindings, append(b, '\n'), 0o644)
	}
	var known knownFile
	if data, err := os.ReadFile(o.known); err == nil {
		json.Unmarshal(data, &known)
	}
	props := o.props
	if len(props) == 0 {
		seen := map[string]bool{}
		for _, ob := range e.obls {
			for _, p := range ob.Props {
				if !seen[p] {
					seen[p] = true
					props = append(props, p)
				}
			}
		}
		sort.Strings(props)
	}
	exit := 0
	for _, prop := range props {
		os.RemoveAll(filepath.Join(o.replayDir, prop))
		type failure struct {
			name, reason, detail string
			ob                   *Obligation
		}
		var fails []failure
		nObl, nDis := 0, 0
		solverWins := map[string]int{}
		solverSecs := 0.0
		var samples []map[string]any
		unitSet := map[string]bool{}
		var unitErrs []string
		coverOK := 0
		retCover := map[string]*retGroup{}
		callCover := map[string]*Obligation{}
		dbAfter := map[string]*retGroup{}
		siteCover := map[string]*retGroup{} // per return site: which ones are proved unreachable on every probed path
		for _, u := range units {
			if !contains(contractPropsOrUnit(u), prop) {
				continue
			}
			unitSet[u.name] = true
			if u.err != "" {
				fails = append(fails, failure{name: u.name + "#unit", reason: "undecided", detail: u.err})
				unitErrs = append(unitErrs, u.name+": "+u.err)
			}
		}
		for _, ob := range e.obls {
			if !contains(ob.Props, prop) || ob.Skip {
				continue
			}
			if ob.Vacuity && ob.Kind == "cover" && (strings.Contains(ob.Name, "#cover:return-reachable@") || strings.Contains(ob.Name, "#cover:invariant-satisfiable@")) {
				// judged as a group: some explored paths are infeasible, which is not vacuity
				gk := ob.Unit
				if strings.Contains(ob.Name, "#cover:invariant-satisfiable@") {
					gk = ob.Name
				}
				g := retCover[gk]
				if g == nil {
					g = &retGroup{ob: ob}
					retCover[gk] = g
				}
				if strings.Contains(ob.Name, "#cover:return-reachable@") {
					sg := siteCover[ob.Name]
					if sg == nil {
						sg = &retGroup{ob: ob}
						siteCover[ob.Name] = sg
					}
					switch ob.Result.Status {
					case "sat":
						sg.sat++
					case "unsat":
						sg.unsat++
					default:
						sg.unknown++
					}
				}
				switch ob.Result.Status {
				case "sat":
					g.sat++
					coverOK++
				case "unsat":
					g.unsat++
				default:
					g.unknown++
				}
				continue
			}
			if ob.Vacuity && ob.Kind == "cover" && strings.Contains(ob.Name, "#cover:after-db-") {
				g := dbAfter[ob.Name]
				if g == nil {
					g = &retGroup{ob: ob}
					dbAfter[ob.Name] = g
				}
				switch ob.Result.Status {
				case "sat":
					g.sat++
					coverOK++
				case "unsat":
					g.unsat++
				default:
					g.unknown++
				}
				continue
			}
			if ob.Vacuity && ob.Kind == "cover" && (strings.Contains(ob.Name, "#cover:before-") || strings.Contains(ob.Name, "#cover:after-")) {
				callCover[ob.Name] = ob
				if ob.Result.Status == "sat" {
					coverOK++
				}
				continue
			}
			if ob.Vacuity {
				if ob.Result.Status == "sat" {
					coverOK++
				} else if ob.Result.Status == "unsat" {
					fails = append(fails, failure{name: ob.Name, reason: "vacuous", detail: "the precondition of this unit is unsatisfiable: every obligation would hold vacuously", ob: ob})
				}
				// unknown on a cover query is not counted either way
				continue
			}
			nObl++
			solverSecs += ob.Result.Seconds
			switch ob.Result.Status {
			case "unsat":
				nDis++
				solverWins[ob.Result.Solver]++
				if len(samples) < 6 && ob.Result.Solver != "simplifier" {
					samples = append(samples, map[string]any{"obligation": ob.Name, "source": ob.Src, "smt_bytes": len(ob.Prefix) + len(ob.Goal), "solver": ob.Result.Solver, "seconds": round3(ob.Result.Seconds), "path": strings.Join(ob.Trace, " ")})
				}
			case "sat":
				fails = append(fails, failure{name: ob.Name, reason: "refuted", detail: ob.Result.Model, ob: ob})
			default:
				fails = append(fails, failure{name: ob.Name, reason: "undecided:" + ob.Result.Status, detail: ob.Result.Raw, ob: ob})
			}
		}
		for gk, g := range retCover {
			if g.sat == 0 && g.unknown == 0 && g.unsat > 0 {
				if strings.Contains(gk, "#cover:") {
					fails = append(fails, failure{name: gk, reason: "vacuous", detail: "the assumed loop invariant is unsatisfiable on every explored path to this loop: the loop body and everything after it hold vacuously", ob: g.ob})
				} else {
					fails = append(fails, failure{name: gk + "#cover:some-return-reachable", reason: "vacuous", detail: "no return of this unit is reachable under its preconditions, callee contracts and loop invariants: its postconditions hold vacuously", ob: g.ob})
				}
			}
		}
		for name, before := range callCover {
			// database terminals fork: judged per call site, all continuations together
			if !strings.Contains(name, "#cover:before-db-") || before.Result.Status == "unsat" {
				continue
			}
			afterName := strings.Replace(name, "#cover:before-db-", "#cover:after-db-", 1)
			g := dbAfter[afterName]
			if g != nil && g.sat == 0 && g.unknown == 0 && g.unsat > 0 {
				fails = append(fails, failure{name: afterName, reason: "vacuous", detail: "every continuation of this database call is infeasible although the path was feasible before it: the model of the call contradicts what is known here, and everything after it would hold vacuously", ob: g.ob})
			}
		}
		for name, after := range callCover {
			if strings.Contains(name, "-db-") {
				continue
			}
			if !strings.Contains(name, "#cover:after-") || after.Result.Status != "unsat" {
				continue
			}
			before := callCover[strings.Replace(name, "#cover:after-", "#cover:before-", 1)]
			if before != nil && before.Result.Status != "unsat" {
				fails = append(fails, failure{name: name, reason: "vacuous", detail: "assuming the callee's postconditions makes a path infeasible that was feasible before the call: the callee's contract contradicts what is known at this call site, and everything after the call would hold vacuously", ob: after})
			}
		}
		// group failures by obligation name; match known findings
		violations := 0
		reported := map[string]bool{}
		var knownHit []string
		for _, f := range fails {
			if reported[f.name] {
				continue
			}
			reported[f.name] = true
			isKnown := false
			for _, k := range known.Open {
				if k.Property == prop && k.Obligation == f.name {
					isKnown = true
					knownHit = append(knownHit, k.What)
					fmt.Printf("KNOWN-FINDING: property=%s %s (obligation %s)\n", prop, k.What, f.name)
				}
			}
			if isKnown {
				continue
			}
			violations++
			rp := e.writeReplay(o, prop, f.name, f.reason, f.detail, f.ob)
			suffix := ""
			if !strings.HasPrefix(f.reason, "confirmed") {
				suffix = " no-failing-input-found"
			}
			fmt.Printf("VIOLATION property=%s replay=%s obligation=%s reason=%s%s\n", prop, rp, f.name, f.reason, suffix)
		}
		if nObl == 0 && len(fails) == 0 {
			fmt.Printf("VIOLATION property=%s replay=%s obligation=none reason=no-obligations-generated no-failing-input-found\n", prop, e.writeReplay(o, prop, "none", "vacuous", "no obligations were generated for this property: contracts did not bind", nil))
			violations++
		}
		if violations > 0 {
			exit = 1
		}
		// evidence
		var unitAssumes []string
		for u := range unitSet {
			for _, x := range setKeys(e.unitAssume[u]) {
				unitAssumes = append(unitAssumes, u+": "+x)
			}
		}
		var unmodelled, skipped, inlined, assumedContracts, intr []string
		for u := range unitSet {
			for _, x := range setKeys(e.unmodel[u]) {
				unmodelled = append(unmodelled, u+" -> "+x)
			}
			for _, x := range setKeys(e.skipped[u]) {
				skipped = append(skipped, x)
			}
			for _, x := range setKeys(e.inlined[u]) {
				inlined = append(inlined, x)
			}
			for _, x := range setKeys(e.trustedCs[u]) {
				assumedContracts = append(assumedContracts, x)
			}
			for _, x := range setKeys(e.intrUsed[u]) {
				intr = append(intr, x)
			}
		}
		sort.Strings(unmodelled)
		discharged := nDis
		ev := map[string]any{
			"property_id":                     prop,
			"tier":                            o.tier,
			"seed":                            o.seed,
			"level":                           "proof",
			"wall_s":                          round3(time.Since(start).Seconds()),
			"violations":                      violations,
			"return_sites_proved_unreachable": unreachableSites(siteCover),
			"coverage": map[string]any{
				"obligations":              nObl,
				"discharged":               discharged,
				"checker_cmd":              "govc check --props " + prop + " --tier " + o.tier + " (VCs generated from /repo's working tree by /verif/govc; z3-new 5.1.0, z3 4.8.12, cvc5 1.0.3 raced per obligation)",
				"trusted_base":             trustedBase(),
				"functions_under_contract": setKeys(unitSet),
				"solver_wins":              solverWins,
				"solver_seconds":           round3(solverSecs),
				"load_seconds":             round3(loadSecs),
				"vcgen_seconds":            round3(genSecs),
				"vacuity_covers_sat":       coverOK,
				"samples":                  samples,
				"unit_errors":              unitErrs,
				"known_findings_hit":       knownHit,
				"unmodelled_calls":         dedupe(unmodelled),
				"abstracted_calls":         dedupe(skipped),
				"inlined_callees":          dedupe(inlined),
				"callee_contracts_used":    dedupe(assumedContracts),
				"trusted_contracts_used":   trustedAmong(e.specs, dedupe(assumedContracts)),
				"intrinsic_contracts_used": dedupe(intr),
				"unit_assumptions":         dedupe(unitAssumes),
			},
			"assumptions": standingAssumptions(),
		}
		if len(samples) == 0 {
			ev["coverage"].(map[string]any)["samples"] = []map[string]any{{"note": "no solver-discharged obligation on this run"}}
		}
		os.MkdirAll(o.evidenceDir, 0o755)
		data, _ := json.MarshalIndent(ev, "", " ")
		os.WriteFile(filepath.Join(o.evidenceDir, prop+".json"), data, 0o644)
		fmt.Printf("property=%s units=%d obligations=%d discharged=%d violations=%d known=%d wall=%.1fs\n", prop, len(unitSet), nObl, discharged, violations, len(knownHit), time.Since(start).Seconds())
		if o.verbose {
			type slow struct {
				n  string
				s  float64
				st string
			}
			var sl []slow
			for _, ob := range e.obls {
				if contains(ob.Props, prop) {
					tot := 0.0
					for _, t := range ob.Tried {
						tot += t.Seconds
					}
					sl = append(sl, slow{ob.Name, tot, ob.Result.Status + "/" + ob.Result.Solver})
				}
			}
			sort.Slice(sl, func(i, j int) bool { return sl[i].s > sl[j].s })
			for i := 0; i < len(sl) && i < 8; i++ {
				fmt.Printf("  SLOW %.2fs %s %s\n", sl[i].s, sl[i].st, sl[i].n)
			}
			seenF := map[string]int{}
			for _, f := range fails {
				seenF[f.name+" ["+f.reason+"]"]++
			}
			for k, n := range seenF {
				fmt.Printf("  FAIL x%d %s\n", n, k)
			}
		}
	}
	return exit
}

func contractPropsOrUnit(u *Unit) []string {
	if u.c == nil {
		return nil
	}
	return contractProps(u.c)
}

func dedupe(xs []string) []string {
	seen := map[string]bool{}
	out := []string{}
	for _, x := range xs {
		if !seen[x] {
			seen[x] = true
			out = append(out, x)
		}
	}
	sort.Strings(out)
	return out
}

func round3(f float64) float64 { return float64(int64(f*1000+0.5)) / 1000 }

func trustedBase() []string {
	return []string{
		"govc itself (SSA symbolic execution, value encodings, intrinsic contracts of dependencies)",
		"go/types and go/ssa (x/tools v0.29.0)",
		"SMT solvers z3 5.1.0, z3 4.8.12, cvc5 1.0.3",
		"Go runtime and standard library behave as their intrinsic contracts say",
	}
}

func standingAssumptions() []string {
	return []string{
		"machine integers are treated as mathematical integers except in units marked checked",
		"float64 is treated as real arithmetic",
		"strings are an uninterpreted sort with =, length and prefix (native string theory only where a unit says so)",
		"termination is not proved",
		"calls listed under abstracted_calls (logging, metrics) are treated as no-ops",
		"calls listed under unmodelled_calls have unconstrained results (and, unless pure, an unconstrained heap)",
		"callee contracts listed under callee_contracts_used are assumed at call sites and proved separately in their own unit, except those repeated under trusted_contracts_used (trusted / abstract: assumed only)",
	}
}

var witnessRe = regexp.MustCompile(`\(define-fun \|?(p\.[^ |!]+)![0-9]+\|? \(\) (Int|Bool|Real)\s+([^\n]+)\)`)

// witnessOf extracts the values the counter-model gives to the unit's scalar parameters (named p.<param>!n).
func witnessOf(model string) map[string]string {
	out := map[string]string{}
	for _, m := range witnessRe.FindAllStringSubmatch(model, -1) {
		out[strings.TrimPrefix(m[1], "p.")] = strings.TrimSpace(m[3])
	}
	return out
}

func (e *Engine) writeReplay(o *checkOpts, prop, obligation, reason, detail string, ob *Obligation) string {
	dir := filepath.Join(o.replayDir, prop)
	os.MkdirAll(dir, 0o755)
	p := filepath.Join(dir, sanitizeFile(obligation)+".json")
	r := map[string]any{"property": prop, "obligation": obligation, "verdict": reason, "solver_output": truncate(detail, 20000)}
	if ob != nil {
		r["goal"] = ob.Goal
		if reason == "refuted" {
			// the solver's counter-model, as far as it speaks about the unit's own parameters (scalars only)
			if w := witnessOf(detail); len(w) > 0 {
				r["counterexample_parameters"] = w
			}
			r["replay_note"] = "the counter-model is a model of the verification condition (uninterpreted strings, ghost tables); it is not turned into an executable test automatically"
		}
		r["source_clause"] = ob.Src
		r["path"] = ob.Trace
		r["solver"] = ob.Result.Solver
		var tried []string
		for _, t := range ob.Tried {
			tried = append(tried, fmt.Sprintf("%s=%s(%.2fs)", t.Solver, t.Status, t.Seconds))
		}
		r["solvers_tried"] = tried
		sp := strings.TrimSuffix(p, ".json") + ".smt2"
		os.WriteFile(sp, []byte(ob.FullScript()), 0o644)
		r["smt_script"] = sp
	}
	data, _ := json.MarshalIndent(r, "", " ")
	os.WriteFile(p, data, 0o644)
	return p
}

func truncate(s string, n int) string {
	if len(s) > n {
		return s[:n] + "…"
	}
	return s
}

// closureShape describes a function literal independently of its ordinal name: signature and number of loops.
func closureShape(fn *ssa.Function) string {
	return types.TypeString(fn.Signature, nil) + fmt.Sprintf(" loops=%d", len(findLoops(fn)))
}

// rebindClosures: function literals are named by ordinal (F$3$1), so adding or removing an unrelated literal in F
// renumbers them. bindings.json records the shape of every literal under contract; a contract whose literal no
// longer exists under its name - or whose name is now carried by a literal of another shape - is bound to the only
// literal of the same enclosing function with the recorded shape that is not legitimately held by another contract
// (noted as an assumption). Contracts, units and obligations keep the recorded name.
func (e *Engine) rebindClosures(specs *Specs) {
	if e.recBindings != nil {
		m := map[string]string{}
		for _, c := range specs.Order {
			key := c.Key()
			if i := strings.Index(key, "~"); i >= 0 {
				key = key[:i]
			}
			if fn := e.fnByKey[key]; fn != nil && strings.Contains(key, "$") {
				m[key] = closureShape(fn)
			}
		}
		e.recBindings["$closures"] = m
	}
	shapes := e.bindings["$closures"]
	if shapes == nil {
		return
	}
	var missing []*Contract
	held := map[string]bool{} // literals legitimately bound to a contract under their own name
	for _, c := range specs.Order {
		key := c.Key()
		if strings.Contains(key, "~") || !strings.Contains(key, "$") {
			continue
		}
		fn := e.fnByKey[key]
		if shapes[key] == "" || (fn != nil && closureShape(fn) == shapes[key]) {
			if fn != nil {
				held[key] = true
			}
			continue
		}
		missing = append(missing, c)
	}
	type rb struct {
		c    *Contract
		cand string
	}
	var rebound []rb
	taken := map[string]bool{}
	for _, c := range missing {
		key := c.Key()
		parent := key[:strings.Index(key, "$")]
		var cands []string
		for k, fn := range e.fnByKey {
			if !strings.HasPrefix(k, parent+"$") || taken[k] || held[k] {
				continue
			}
			if closureShape(fn) == shapes[key] {
				cands = append(cands, k)
			}
		}
		if len(cands) == 1 {
			taken[cands[0]] = true
			rebound = append(rebound, rb{c, cands[0]})
			e.notes = append(e.notes, fmt.Sprintf("%s: the function literal %s no longer has the recorded shape under that name; its contract is bound to %s, the only literal of %s with that shape (%s)", shortUnit(c), key, cands[0], parent, shapes[key]))
		}
	}
	// apply together: a name may be vacated by one contract and taken by another
	target := map[string]*ssa.Function{}
	for _, r := range rebound {
		target[r.c.Key()] = e.fnByKey[r.cand]
	}
	for _, c := range missing {
		// the literal now carrying this name is not the one the contract was written for
		if specs.Contracts[c.Key()] == c {
			delete(specs.Contracts, c.Key())
		}
		delete(e.fnByKey, c.Key())
	}
	for _, r := range rebound {
		e.fnByKey[r.c.Key()] = target[r.c.Key()]
		specs.Contracts[r.cand] = r.c
	}
}

// hostOverloaded: the one-minute load average exceeds the number of cores by half (Linux; false when unknown).
func hostOverloaded() bool {
	b, err := os.ReadFile("/proc/loadavg")
	if err != nil {
		return false
	}
	var l1 float64
	if _, err := fmt.Sscanf(string(b), "%f", &l1); err != nil {
		return false
	}
	return l1 > 1.5*float64(runtime.NumCPU())
}
