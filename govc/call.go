package main

import (
	"fmt"
	"go/types"
	"math/big"
	"strings"

	"golang.org/x/tools/go/ssa"
)

type intrinsic struct {
	mods []string
	fn   func(st *State, fr *Frame, call ssa.CallInstruction, args []SVal) (SVal, bool)
}

var intrinsics = map[string]*intrinsic{}

func (st *State) execDefer(fr *Frame, d *ssa.Defer) {
	c := d.Common()
	var fnv SVal
	if !c.IsInvoke() {
		fnv = st.val(fr, c.Value)
	} else {
		fnv = st.val(fr, c.Value)
	}
	var args []SVal
	for _, a := range c.Args {
		args = append(args, st.val(fr, a))
	}
	fr.defers = append(fr.defers, deferred{call: d, fn: fnv, args: args})
}

func (st *State) runDefers(fr *Frame, k func(st *State)) {
	if len(fr.defers) == 0 {
		k(st)
		return
	}
	d := fr.defers[len(fr.defers)-1]
	fr.defers = fr.defers[:len(fr.defers)-1]
	st.dispatchCall(fr, d.call, d.call.Common(), d.fn, d.args, func(st *State, res SVal) {
		fr := st.frames[len(st.frames)-1]
		st.runDefers(fr, k)
	})
}

func (st *State) execGo(fr *Frame, g *ssa.Go) {
	// goroutine bodies are separate sequential units; the spawn itself has no
	// effect on this unit's state (nothing is concluded about scheduling).
	st.events = append(st.events, "go:"+calleeName(g.Common()))
	st.e.note(st.u.name, "skipped", "go "+calleeName(g.Common()))
}

func (st *State) execCall(fr *Frame, call *ssa.Call, k func(st *State, res SVal)) {
	c := call.Common()
	var args []SVal
	var fnv SVal
	if c.IsInvoke() {
		fnv = st.val(fr, c.Value)
	} else {
		if _, ok := c.Value.(*ssa.Builtin); !ok {
			fnv = st.val(fr, c.Value)
		}
	}
	for _, a := range c.Args {
		args = append(args, st.val(fr, a))
	}
	st.dispatchCall(fr, call, c, fnv, args, k)
}

func (st *State) dispatchCall(fr *Frame, in ssa.CallInstruction, c *ssa.CallCommon, fnv SVal, args []SVal, k func(st *State, res SVal)) {
	u := st.u
	// builtins
	if b, ok := c.Value.(*ssa.Builtin); ok && !c.IsInvoke() {
		res := st.builtin(fr, in, b, c, args)
		k(st, res)
		return
	}
	var callee *ssa.Function
	var bindings []SVal
	if c.IsInvoke() {
		// dynamic dispatch on a known concrete type
		if iv, ok := fnv.(*IfaceV); ok && iv.Conc != nil {
			if m := st.e.prog.LookupMethod(iv.Conc, c.Method.Pkg(), c.Method.Name()); m != nil {
				callee = m
				args = append([]SVal{iv.CVal}, args...)
			}
		}
		if callee == nil {
			if ct := st.e.dynContract(c); ct != nil {
				recv := fnv
				st.applyContract(fr, in, ct, nil, append([]SVal{recv}, args...), c.Signature().Results(), k)
				return
			}
			if st.e.isSkippedIface(c) {
				st.e.note(u.name, "skipped", "invoke "+typeKey(c.Value.Type())+"."+c.Method.Name())
				k(st, st.freshResult(c.Signature().Results()))
				return
			}
			if r, ok := st.invokeIntrinsic(fr, in, c, fnv, args); ok {
				k(st, r)
				return
			}
			st.unmodelled(fr, in, "invoke "+typeKey(c.Value.Type())+"."+c.Method.Name(), c.Signature().Results(), k)
			return
		}
	} else {
		switch f := fnv.(type) {
		case *FuncV:
			if f.Fn != nil {
				callee = f.Fn
				bindings = f.Bindings
				if f.Bound != nil {
					args = append([]SVal{f.Bound}, args...)
				}
			}
		}
		if callee == nil {
			// call of an unknown function value
			st.dynamicCall(fr, in, c, fnv, args, k)
			return
		}
	}
	name := callee.String()
	// bound method wrappers ($bound) and thunks: unwrap
	if callee.Synthetic != "" && strings.HasSuffix(callee.Name(), "$bound") && callee.Blocks != nil {
		st.inline(fr, in, callee, bindings, args, k)
		return
	}
	// vacuity probe around database terminals (a few per call site): some continuation of a feasible path must be feasible
	kEnt := k
	switch strings.TrimSuffix(callee.Name(), "X") {
	case "All", "Only", "First", "IDs", "Count", "Exist", "Scan", "Save", "Exec", "OnlyID", "FirstID":
		if isEntPkg(callee, st.e.modPath) {
			site := u.callOrd[in]
			if site == "" {
				site = st.siteName(fr, in, "call")
			}
			if !fr.isUnit {
				site = fr.fn.Name() + "/" + site
			}
			key := "ent:" + site
			if u.invCover == nil {
				u.invCover = map[string]int{}
			}
			if u.invCover[key] < 2 {
				u.invCover[key]++
				n := u.invCover[key]
				st.e.addObligation(st, u, "cover", fmt.Sprintf("before-db-%d", n), site, TFalse, u.c.Props, "database call", true)
				kEnt = func(st2 *State, res SVal) {
					st2.e.addObligation(st2, u, "cover", fmt.Sprintf("after-db-%d", n), site, TFalse, u.c.Props, "database call", true)
					k(st2, res)
				}
			}
		}
	}
	if st.entCall(fr, in, callee, args, kEnt) {
		return
	}
	if intr, ok := intrinsics[name]; ok {
		if r, handled := intr.fn(st, fr, in, args); handled {
			st.e.note(u.name, "intrinsic", name)
			k(st, r)
			return
		}
	}
	if r, ok := st.genericIntrinsic(fr, in, callee, args); ok {
		st.e.note(u.name, "intrinsic", name)
		k(st, r)
		return
	}
	key := fnKey(callee)
	if ct, ok := st.e.specs.Contracts[key]; ok && !ct.Inline {
		st.applyContract(fr, in, ct, callee, args, callee.Signature.Results(), k)
		return
	}
	if st.e.isSkipped(callee) {
		st.e.note(u.name, "skipped", name)
		k(st, st.freshResult(callee.Signature.Results()))
		return
	}
	if st.e.inModule(callee) && callee.Blocks != nil {
		depth := 0
		rec := false
		for _, f := range st.frames {
			depth++
			if f.fn == callee {
				rec = true
			}
		}
		if !rec && depth <= st.e.maxDepth {
			st.e.note(u.name, "inlined", key)
			st.inline(fr, in, callee, bindings, args, k)
			return
		}
	}
	// synthetic wrappers of in-module or external methods (e.g. promoted methods)
	if callee.Synthetic != "" && callee.Blocks != nil && len(st.frames) <= st.e.maxDepth &&
		(strings.HasPrefix(callee.Synthetic, "wrapper") || strings.HasPrefix(callee.Synthetic, "bound") || strings.HasPrefix(callee.Synthetic, "thunk")) {
		st.inline(fr, in, callee, bindings, args, k)
		return
	}
	st.unmodelled(fr, in, name, callee.Signature.Results(), k)
}

func (st *State) freshResult(res *types.Tuple) SVal {
	switch res.Len() {
	case 0:
		return nil
	case 1:
		return st.freshVal("r", res.At(0).Type())
	}
	return st.freshVal("r", res)
}

// unmodelled: a call the engine knows nothing about. Result and the whole
// heap are havocked; the unit is reported as depending on an unmodelled call.
func (st *State) unmodelled(fr *Frame, in ssa.CallInstruction, name string, res *types.Tuple, k func(st *State, res SVal)) {
	st.e.note(st.u.name, "unmodelled", name)
	if st.u.c.Options["unmodelled"] == "pure" || pureExternal(name) {
		k(st, st.freshResult(res))
		return
	}
	st.havoc(nil, []string{"S:*", "T:*"})
	k(st, st.freshResult(res))
}

// pureExternal lists dependency functions that neither read nor write the
// program's heap in a way that matters (assumed; listed in evidence).
func pureExternal(name string) bool {
	for _, p := range []string{"fmt.", "errors.", "strings.", "strconv.", "math.", "time.", "unicode.", "regexp.", "sort.", "bytes.", "encoding/", "hash/", "(*regexp.", "(time.", "(*strings.", "google.golang.org/grpc/status.", "google.golang.org/grpc/codes.", "(google.golang.org/grpc/codes.", "github.com/google/uuid.", "(github.com/google/uuid.", "google.golang.org/protobuf/types/known/", "(*google.golang.org/protobuf/types/known/", "context.", "(*context.", "invoke context.Context.", "invoke hash.", "invoke io.", "io.", "(*sync.Pool).Put", "(*sync.WaitGroup).", "net/http.NewRequestWithContext", "(net/http.Header)."} {
		if strings.HasPrefix(name, p) {
			return true
		}
	}
	return false
}

func (st *State) dynamicCall(fr *Frame, in ssa.CallInstruction, c *ssa.CallCommon, fnv SVal, args []SVal, k func(st *State, res SVal)) {
	// func-typed field or parameter: contract keyed by the field/param it was loaded from
	desc := "dynamic"
	if key := dynCallKey(c); key != "" {
		desc = key
		if ct, ok := st.e.specs.Contracts[key]; ok {
			if ct.Options["runner"] == "transaction" {
				// a function-valued parameter that runs its argument in a transaction of its own
				st.txRun(fr, in, nil, key, args, k)
				return
			}
			st.applyContract(fr, in, ct, nil, args, c.Signature().Results(), k)
			return
		}
	}
	st.events = append(st.events, "call:"+desc)
	st.unmodelled(fr, in, desc, c.Signature().Results(), k)
}

// dynCallKey names a dynamic call by where the function value was loaded from:
// "pkg.Type.Field" for a struct field.
func dynCallKey(c *ssa.CallCommon) string {
	v := c.Value
	if u, ok := v.(*ssa.UnOp); ok {
		if fa, ok := u.X.(*ssa.FieldAddr); ok {
			pt := fa.X.Type().Underlying().(*types.Pointer).Elem()
			if n, ok := pt.(*types.Named); ok && n.Obj().Pkg() != nil {
				return n.Obj().Pkg().Path() + "." + n.Obj().Name() + "." + pt.Underlying().(*types.Struct).Field(fa.Field).Name()
			}
		}
	}
	if p, ok := v.(*ssa.Parameter); ok {
		fn := p.Parent()
		return fnKey(fn) + ".param." + p.Name()
	}
	// a value of a named function type: "pkg.TypeName"
	if n, ok := v.Type().(*types.Named); ok && n.Obj().Pkg() != nil {
		if _, ok := n.Underlying().(*types.Signature); ok {
			return n.Obj().Pkg().Path() + "." + n.Obj().Name()
		}
	}
	return ""
}

func (st *State) inline(fr *Frame, in ssa.CallInstruction, callee *ssa.Function, bindings []SVal, args []SVal, k func(st *State, res SVal)) {
	if len(args) != len(callee.Params) {
		st.unsupported("inline %s: %d args for %d params", callee.Name(), len(args), len(callee.Params))
	}
	nf := &Frame{fn: callee, vals: map[ssa.Value]SVal{}, bindings: bindings, depth: fr.depth + 1}
	for i, p := range callee.Params {
		nf.vals[p] = args[i]
	}
	nres := callee.Signature.Results().Len()
	nf.ret = func(st *State, results []SVal) {
		// pop frame
		st.frames = st.frames[:len(st.frames)-1]
		var res SVal
		switch nres {
		case 0:
			res = nil
		case 1:
			res = results[0]
		default:
			res = &TupleV{results}
		}
		k(st, res)
	}
	st.frames = append(st.frames, nf)
	// loops inside inlined functions use an empty opened set local to the blocks (keys are blocks, unique per function)
	st.execBlock(nf, callee.Blocks[0], nil)
}

// applyContract uses the callee's contract at a call site: prove requires,
// havoc modifies, assume ensures.
func (st *State) applyContract(fr *Frame, in ssa.CallInstruction, ct *Contract, callee *ssa.Function, args []SVal, results *types.Tuple, k func(st *State, res SVal)) {
	u := st.u
	st.e.note(u.name, "contract", ct.Key())
	if len(ct.Params) != len(args) {
		st.unsupported("contract %s binds %d parameters, call has %d", ct.Key(), len(ct.Params), len(args))
	}
	env := &Env{vars: map[string]envVar{}, old: st.snapshot(), pkg: ct.Pkg, allocBound: st.define("callwm", st.watermark())}
	var ptypes []types.Type
	if callee != nil {
		for _, p := range callee.Params {
			ptypes = append(ptypes, p.Type())
		}
	} else {
		c := in.Common()
		if c.IsInvoke() {
			ptypes = append(ptypes, c.Value.Type())
		}
		sig := c.Signature()
		for i := 0; i < sig.Params().Len(); i++ {
			ptypes = append(ptypes, sig.Params().At(i).Type())
		}
	}
	// Interior pointers (address of a field / element / global) handed to a callee under contract: the contract
	// speaks about a box, so the pointee is copied into a fresh box before the call and copied back after it
	// (sound as long as the callee does not keep the pointer, which none of the functions under contract does).
	type copyBack struct {
		from *AddrV
		box  *AddrV
	}
	var backs []copyBack
	args = append([]SVal(nil), args...)
	for i := range args {
		a, isAddr := args[i].(*AddrV)
		if !isAddr || i >= len(ptypes) {
			continue
		}
		pt, isPtr := ptypes[i].Underlying().(*types.Pointer)
		if !isPtr {
			continue
		}
		if _, isStruct := pt.Elem().Underlying().(*types.Struct); isStruct && !isOpaque(pt.Elem()) {
			if a.Kind == "field" && a.Path == "" {
				args[i] = a.Base // a whole struct object: its reference
				continue
			}
			st.unsupported("contract %s: pointer to an embedded struct value passed as argument %d", ct.Key(), i)
		}
		if a.Kind == "box" && a.Path == "" {
			args[i] = a.Base
			continue
		}
		r := st.allocRef()
		box := &AddrV{Kind: "box", Base: r, Key: "B|" + typeKey(pt.Elem()), Type: pt.Elem()}
		st.store(box, st.load(st.heap, a))
		backs = append(backs, copyBack{a, box})
		args[i] = r
	}
	if len(backs) > 0 {
		// the callee's pre-state includes the boxes just filled
		env.old = st.snapshot()
		env.allocBound = st.define("callwm", st.watermark())
		k0 := k
		k = func(st *State, res SVal) {
			for _, b := range backs {
				st.store(b.from, st.load(st.heap, b.box))
			}
			k0(st, res)
		}
	}
	for i, p := range ct.Params {
		if i < len(ptypes) {
			env.vars[p] = envVar{args[i], ptypes[i]}
		}
	}
	st.loadModules(ct.Uses)
	site := u.callOrd[in]
	if site == "" {
		site = st.siteName(fr, in, "call")
	}
	if !fr.isUnit {
		site = fr.fn.Name() + "/" + site
	}
	var outOfScope []*Term
	for i, r := range ct.Requires {
		label := r.Label
		if label == "" {
			label = fmt.Sprintf("%d", i+1)
		}
		g := st.elabBool(env, r.E)
		props := st.propsFor(r, ct.Props)
		if len(props) == 0 {
			props = u.c.Props
		}
		if len(r.Props) > 0 && !intersects(r.Props, u.c.Props) {
			// A precondition explicitly tagged with properties this unit is not part of the proof of: it is neither
			// checked nor assumed here; the callee's postconditions are then only known under it.
			outOfScope = append(outOfScope, g)
			st.e.note(u.name, "assumption", fmt.Sprintf("precondition %s.%s (props %v) is outside this unit's properties at %s: not checked; the callee's postconditions are used only under it", ct.Func, label, props, site))
			continue
		}
		if u.c.Options["callee-preconditions"] == "assumed" {
			// a variant unit (F~x) re-reads a function for one more property; the preconditions of the calls in F are
			// proof obligations of F's primary unit and are taken from there
			st.e.note(u.name, "assumption", fmt.Sprintf("precondition %s.%s of a call in the body is assumed here: it is a proof obligation of the primary unit of the same function (option callee-preconditions assumed)", ct.Func, label))
			st.assume(g)
			continue
		}
		oprops := mergeProps(props, u.c.Props)
		if len(r.Props) > 0 {
			// explicitly tagged: the obligation belongs to those properties only (the other properties of this unit
			// take the clause as an assumption, which is checked under its own properties)
			oprops = nil
			for _, p := range r.Props {
				if contains(u.c.Props, p) {
					oprops = append(oprops, p)
				}
			}
		}
		st.e.addObligation(st, u, "requires", fmt.Sprintf("%s.%s", ct.Func, label), site, g, oprops, r.Src, false)
		st.assume(g)
	}
	if ct.HasMods && len(ct.Modifies) > 0 && ct.Options["unreachable"] == "locals" {
		// an unknown function value: it cannot reach objects this unit allocated unless they are handed to it
		var except []*Term
		for _, a := range args {
			if t, ok := a.(*Term); ok && t.Sort == SInt {
				except = append(except, t)
			}
		}
		st.e.note(u.name, "assumption", fmt.Sprintf("%s cannot reach objects allocated by %s other than its arguments (option unreachable locals)", ct.Func, u.name))
		st.havocKeeping(ct.Modifies, Const("A0", SInt), except)
	} else if ct.HasMods && (len(ct.Modifies) > 0 || len(ct.Allocates) > 0) {
		if len(ct.Modifies) > 0 {
			st.havoc(ct.Modifies, nil)
		}
		if len(ct.Allocates) > 0 {
			st.havocFresh(ct.Allocates)
		}
	} else if !ct.HasMods && !ct.Trusted {
		// no frame given: nothing is modified is the default for pure helpers
	}
	// the callee may have allocated: its results (and whatever it stored) may refer to objects above the caller's
	// allocation watermark, so the watermark moves on every contract call, whether or not something was havocked
	{
		nb := st.fresh("A", SInt)
		st.assume(Ge(nb, st.watermark()))
		st.allocB = nb
		st.allocOff = 0
	}
	// vacuity probe around the assumed postconditions (a few paths per call site, judged pairwise in the report):
	// a feasible path must not become infeasible by assuming what the callee ensures
	probeKey := "call:" + site
	probe := false
	if u.invCover == nil {
		u.invCover = map[string]int{}
	}
	if !env.assume && u.invCover[probeKey] < 3 && len(ct.Ensures)+len(ct.GhostEns) > 0 {
		u.invCover[probeKey]++
		probe = true
		st.e.addObligation(st, u, "cover", fmt.Sprintf("before-%s-%d", ct.Func, u.invCover[probeKey]), site, TFalse, u.c.Props, "call", true)
	}
	res := st.freshResult(results)
	var resVals []SVal
	switch results.Len() {
	case 0:
	case 1:
		resVals = []SVal{res}
	default:
		resVals = res.(*TupleV).Vs
	}
	for i, name := range ct.Results {
		if i < len(resVals) {
			env.vars[name] = envVar{resVals[i], results.At(i).Type()}
		}
	}
	if len(resVals) == 1 {
		env.vars["result"] = envVar{resVals[0], results.At(0).Type()}
	}
	env.assume = true
	hyp := And(outOfScope...)
	for _, c := range ct.Ensures {
		st.assume(Implies(hyp, st.elabBool(env, c.E)))
	}
	for _, c := range ct.GhostEns {
		st.assume(Implies(hyp, st.elabBool(env, c.E)))
	}
	env.assume = false
	for _, g := range ct.GhostSet {
		v, _ := st.elab(env, g.E)
		st.ghostSet(g.Label, nil, st.scalar(v))
	}
	if probe {
		st.e.addObligation(st, u, "cover", fmt.Sprintf("after-%s-%d", ct.Func, u.invCover[probeKey]), site, TFalse, u.c.Props, "call", true)
	}
	k(st, res)
}

func isEntPkg(callee *ssa.Function, modPath string) bool {
	p := callee.Package()
	if p == nil {
		if o := callee.Origin(); o != nil {
			p = o.Package()
		}
	}
	return p != nil && p.Pkg.Path() == modPath+"/ent"
}

func mergeProps(a, b []string) []string {
	seen := map[string]bool{}
	var out []string
	for _, x := range append(append([]string(nil), a...), b...) {
		if !seen[x] {
			seen[x] = true
			out = append(out, x)
		}
	}
	return out
}

// ---------------------------------------------------------------------------
// builtins

func (st *State) builtin(fr *Frame, in ssa.CallInstruction, b *ssa.Builtin, c *ssa.CallCommon, args []SVal) SVal {
	switch b.Name() {
	case "len":
		switch x := args[0].(type) {
		case *SliceV:
			return x.Len
		case *Term:
			if x.Sort == SStr {
				return st.strLen(x)
			}
			if mt, ok := c.Args[0].Type().Underlying().(*types.Map); ok {
				l := st.mapLen(st.heap, mt, x)
				st.assume(Ge(l, IntLit(0)))
				return l
			}
			if _, ok := c.Args[0].Type().Underlying().(*types.Chan); ok {
				l := st.fresh("chanlen", SInt)
				st.assume(Ge(l, IntLit(0)))
				return l
			}
		}
		st.unsupported("len of %T", args[0])
	case "cap":
		if x, ok := args[0].(*SliceV); ok {
			return x.Cap
		}
		st.unsupported("cap of %T", args[0])
	case "append":
		return st.appendBuiltin(fr, c, args)
	case "delete":
		mt := c.Args[0].Type().Underlying().(*types.Map)
		st.mapDelete(mt, st.scalar(args[0]), st.scalar(args[1]))
		return nil
	case "close":
		ch := st.scalar(args[0])
		st.panicAt(fr, in, "close-nil", Neq(ch, IntLit(0)))
		st.panicAt(fr, in, "close-closed", Not(st.ghostGet(st.heap, "closed", []*Term{ch}, SBool)))
		st.ghostSet("closed", []*Term{ch}, TTrue)
		return nil
	case "copy":
		dst := args[0].(*SliceV)
		n := st.fresh("copied", SInt)
		src, ok := args[1].(*SliceV)
		if !ok {
			st.assume(And(Ge(n, IntLit(0)), Le(n, dst.Len)))
			st.havoc([]string{"E:" + shortenType(typeKey(dst.Elem)) + ":*", "E:" + shortenType(typeKey(dst.Elem)) + ":"}, nil)
			return n
		}
		// n = min(len(dst), len(src)); dst[i] = src[i] for i < n, the rest of dst is unchanged
		st.assume(Eq(n, Ite(Le(dst.Len, src.Len), dst.Len, src.Len)))
		for _, l := range st.e.leaves(dst.Elem) {
			key := "E|" + typeKey(dst.Elem) + "|" + l.Path
			sArr := ArrS(SInt, ArrS(SInt, l.Sort))
			arr := st.heapGet(st.heap, key, sArr, l.IsRef)
			oldIn := Select(arr, dst.Base)
			srcIn := Select(arr, src.Base)
			inner := st.fresh("copydst", ArrS(SInt, l.Sort))
			j := st.qv("j")
			st.assume(Forall([]*Term{j}, Eq(Select(inner, j), Ite(And(Ge(j, dst.Off), Lt(j, Add(dst.Off, n))), Select(srcIn, Add(src.Off, Sub(j, dst.Off))), Select(oldIn, j))), Select(inner, j)))
			st.heapSetInner(key, arr, dst.Base, inner)
		}
		delete(st.resultSlices, dst.Base.S)
		if ls := st.e.leaves(dst.Elem); len(ls) == 1 {
			// a full copy has the same set of elements as its source
			post := st.memberArr(st.heap, dst)
			st.assume(Implies(Eq(dst.Len, src.Len), Eq(post, st.memberArr(st.heap, src))))
		}
		return n
	case "min", "max":
		x, y := st.scalar(args[0]), st.scalar(args[1])
		if b.Name() == "min" {
			return Ite(Le(x, y), x, y)
		}
		return Ite(Ge(x, y), x, y)
	case "print", "println":
		return nil
	case "recover":
		return &IfaceV{Tag: IntLit(0), Val: IntLit(0)}
	case "ssa:wrapnilchk":
		return args[0]
	}
	st.unsupported("builtin %s", b.Name())
	return nil
}

func (st *State) appendBuiltin(fr *Frame, c *ssa.CallCommon, args []SVal) SVal {
	s, ok := args[0].(*SliceV)
	if !ok {
		st.unsupported("append to %T", args[0])
	}
	switch add := args[1].(type) {
	case *SliceV:
		// result: a fresh base holding s followed by add (copying semantics; the
		// aliasing case with spare capacity is over-approximated by a fresh base)
		nb := st.allocRef()
		nl := Add(s.Len, add.Len)
		ncap := st.fresh("cap", SInt)
		st.assume(Ge(ncap, nl))
		res := &SliceV{Base: nb, Off: IntLit(0), Len: nl, Cap: ncap, Elem: s.Elem}
		if l1, ok := s.Len.Lit.(*big.Int); ok {
			if l2, ok := add.Len.Lit.(*big.Int); ok && l1.Int64()+l2.Int64() <= 16 {
				// statically known lengths: copy element by element (keeps engine-side values such as predicates)
				k := int64(0)
				cp := func(src *SliceV, n int64) {
					for i := int64(0); i < n; i++ {
						v := st.load(st.heap, &AddrV{Kind: "elem", Base: src.Base, Idx: Add(src.Off, IntLit(i)), Key: "E|" + typeKey(s.Elem), Type: s.Elem})
						st.store(&AddrV{Kind: "elem", Base: nb, Idx: IntLit(k), Key: "E|" + typeKey(s.Elem), Type: s.Elem}, v)
						k++
					}
				}
				cp(s, l1.Int64())
				cp(add, l2.Int64())
				return res
			}
		}
		ls := st.e.leaves(s.Elem)
		for _, l := range ls {
			key := "E|" + typeKey(s.Elem) + "|" + l.Path
			srt := ArrS(SInt, ArrS(SInt, l.Sort))
			arr := st.heapGet(st.heap, key, srt, l.IsRef)
			inner := st.fresh("app", ArrS(SInt, l.Sort))
			i := Const("i!q", SInt)
			oldEl := Select(st.innerArray(arr, s.Base), Add(s.Off, i))
			st.assume(ForallAlt([]*Term{i}, Implies(And(Ge(i, IntLit(0)), Lt(i, s.Len)), Eq(Select(inner, i), oldEl)), [][]*Term{{Select(inner, i)}, {oldEl}}))
			if lit, ok := add.Len.Lit.(interface{ Int64() int64 }); ok && lit.Int64() <= 4 {
				for j := int64(0); j < lit.Int64(); j++ {
					st.assume(Eq(Select(inner, Add(s.Len, IntLit(j))), Select(Select(arr, add.Base), Add(add.Off, IntLit(j)))))
				}
			} else {
				st.assume(Forall([]*Term{i}, Implies(And(Ge(i, IntLit(0)), Lt(i, add.Len)), Eq(Select(inner, Add(s.Len, i)), Select(Select(arr, add.Base), Add(add.Off, i))))))
			}
			if l.IsRef && st.e.refAxioms {
				st.assume(Forall([]*Term{i}, And(Ge(Select(inner, i), IntLit(0)), Lt(Select(inner, i), st.watermark())), Select(inner, i)))
			}
			st.heapSetInner(key, arr, nb, inner)
		}
		return res
	case *Term:
		// append([]byte, string...)
		r := st.freshVal("appended", c.Args[0].Type()).(*SliceV)
		st.assume(Eq(r.Len, Add(s.Len, st.strLen(add))))
		return r
	}
	st.unsupported("append of %T", args[1])
	return nil
}
