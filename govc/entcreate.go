package main

import (
	"fmt"
	"go/types"
	"strings"

	"golang.org/x/tools/go/ssa"
)

// Create builders are symbolic objects: a reference with ghost arrays
//   CB|<table>|<col>       value set for the column
//   CB|<table>|<col>$set   whether the column was set
// so that builders can be produced in loops and collected in slices.

type createV struct {
	Table *entTable
	Ref   *Term
}

func cbKey(t *entTable, col string) string    { return "CB|" + t.Name + "|" + col }
func cbSetKey(t *entTable, col string) string { return "CB|" + t.Name + "|" + col + "$set" }

func (st *State) newCreate(t *entTable) SVal {
	r := st.allocRef()
	for _, c := range t.Cols {
		key := cbSetKey(t, c.Name)
		arr := st.heapGet(st.heap, key, ArrS(SInt, SBool), false)
		st.heapSet(key, Store(arr, r, TFalse))
	}
	return r
}

func (st *State) cbSet(t *entTable, r *Term, col string, v *Term) {
	c := t.ByName[col]
	if v.Sort != c.Sort {
		st.unsupported("ent: create setter for %s.%s: value sort %s, column sort %s", t.Name, col, v.Sort, c.Sort)
	}
	key := cbKey(t, col)
	arr := st.heapGet(st.heap, key, ArrS(SInt, c.Sort), false)
	st.heapSet(key, Store(arr, r, v))
	sk := cbSetKey(t, col)
	sa := st.heapGet(st.heap, sk, ArrS(SInt, SBool), false)
	st.heapSet(sk, Store(sa, r, TTrue))
}

func (st *State) cbVal(h *HeapView, t *entTable, r *Term, col string) (val, set *Term) {
	c := t.ByName[col]
	return Select(st.heapGet(h, cbKey(t, col), ArrS(SInt, c.Sort), false), r), Select(st.heapGet(h, cbSetKey(t, col), ArrS(SInt, SBool), false), r)
}

func (st *State) createMethod(fr *Frame, in ssa.CallInstruction, callee *ssa.Function, t *entTable, name string, args []SVal, k func(st *State, res SVal)) {
	r := st.scalar(args[0])
	switch {
	case name == "Save" || name == "Exec" || name == "SaveX" || name == "ExecX":
		results := callee.Signature.Results()
		st.stmt()
		st.e.note(st.u.name, "intrinsic", "ent "+t.Entity+" create."+name)
		st.entFail(results, k)
		get := func(st *State) func(col string) (*Term, *Term) {
			return func(col string) (*Term, *Term) { return st.cbVal(st.heap, t, r, col) }
		}
		st.entConstraint(t, results, get, k)
		st.hookRejectInsert(t, results, get, k)
		id := st.insertRow(t, get(st))
		var res SVal
		if results.Len() == 2 {
			res = st.mkEntity(t, &entBuilder{Table: t}, id)
		}
		k(st, st.resultWithErr(results, IntLit(0), res))
	case name == "Mutation":
		k(st, r)
	case strings.HasPrefix(name, "SetNillable"):
		col := t.ByFld[strings.TrimPrefix(name, "SetNillable")]
		if col == nil {
			st.unsupported("ent: %s on unknown field", name)
		}
		p := st.scalar(args[1])
		vt := callee.Params[1].Type().Underlying().(*types.Pointer).Elem()
		val := st.colValueOf(col, st.load(st.heap, st.ptrAddr(p, vt)))
		// set only when the pointer is non-nil
		oldV, oldS := st.cbVal(st.heap, t, r, col.Name)
		st.cbSet(t, r, col.Name, Ite(Neq(p, IntLit(0)), val, oldV))
		sk := cbSetKey(t, col.Name)
		sa := st.heapGet(st.heap, sk, ArrS(SInt, SBool), false)
		st.heapSet(sk, Store(sa, r, Or(oldS, Neq(p, IntLit(0)))))
		k(st, r)
	case strings.HasPrefix(name, "Set"):
		fname := strings.TrimPrefix(name, "Set")
		col := t.ByFld[fname]
		if col == nil {
			if ed := t.Edges[fname]; ed != nil && ed.M2O {
				target := st.e.ent.Tables[ed.Target]
				st.cbSet(t, r, ed.FKCol, st.entityID(target, args[1]))
				k(st, r)
				return
			}
			st.unsupported("ent: %s on unknown field of %s", name, t.Entity)
		}
		st.cbSet(t, r, col.Name, st.setterValue(col, callee, args[1]))
		k(st, r)
	default:
		st.unsupported("ent: %sCreate.%s is not modelled", t.Entity, name)
	}
}

// entConstraint forks the path in which the unique (name, live) index rejects the insert: that happens
// exactly when another row with the same name and a non-NULL equal live marker exists.
func (st *State) entConstraint(t *entTable, results *types.Tuple, get func(st *State) func(col string) (*Term, *Term), k func(st *State, res SVal)) {
	if t.ByName["name"] == nil {
		return
	}
	st2 := st.clone()
	e := st2.newErr("dup")
	st2.assume(st2.errIs("constraint", e))
	st2.assume(Not(st2.errIs("notfound", e)))
	if t.ByName["live"] != nil {
		g := get(st2)
		nameV, _ := g("name")
		liveV, liveSet := g("live")
		newLive := Ite(liveSet, liveV, TTrue) // schema default true
		x := st2.fresh("clash", SInt)
		st2.assume(And(st2.rowLive(st2.heap, t, x), Not(st2.colNull(st2.heap, t, "live", x)), Eq(st2.colGet(st2.heap, t, "live", x), newLive), Eq(st2.colGet(st2.heap, t, "name", x), nameV)))
	}
	st2.tr("constraint")
	k(st2, st2.resultWithErr(results, e, nil))
}

// liveInvariant: the row-level rule enforced by the schema hook checkLiveOrDeleted.
func (st *State) liveInvariantOfNew(t *entTable, g func(col string) (*Term, *Term)) *Term {
	liveV, liveSet := g("live")
	_, delSet := g("deleted_at")
	live := Ite(liveSet, liveV, TTrue)
	return Eq(live, Not(delSet))
}

// hookRejectInsert forks the path in which the mutation hook refuses the new row.
func (st *State) hookRejectInsert(t *entTable, results *types.Tuple, get func(st *State) func(col string) (*Term, *Term), k func(st *State, res SVal)) {
	if t.ByName["live"] == nil || t.ByName["deleted_at"] == nil {
		return
	}
	st2 := st.clone()
	inv := st2.liveInvariantOfNew(t, get(st2))
	if isTrue(inv) {
		return
	}
	st2.assume(Not(inv))
	e := st2.newErr("hookerr")
	st2.assume(st2.errIs("validation", e))
	st2.assume(Not(st2.errIs("notfound", e)))
	st2.assume(Not(st2.errIs("constraint", e)))
	st2.tr("hook-rejects")
	k(st2, st2.resultWithErr(results, e, nil))
}

// defaultOf gives the schema default of a column on insert (nil = none).
func (st *State) defaultOf(t *entTable, c *entCol, now *Term) *Term {
	// Default<Field> variables of the entity package carry the schema defaults
	p := st.e.tpkgs[t.Pkg]
	if p == nil {
		return nil
	}
	if c.Name == "id" {
		return nil // handled by the caller (fresh id)
	}
	obj := p.Types.Scope().Lookup("Default" + c.Field)
	if obj == nil {
		return nil
	}
	if _, isFunc := obj.Type().Underlying().(*types.Signature); isFunc {
		// time.Now / uuid.New style defaults
		if c.Sort == SInt {
			return now
		}
		return nil
	}
	// value defaults are set in ent/runtime.go from the schema descriptors; the values used by
	// this schema are the zero value except for "live" (true): read from the schema source.
	switch c.Sort {
	case SBool:
		return BoolLit(c.Name == "live")
	case SInt:
		return IntLit(0)
	case SStr:
		return st.strLit("")
	}
	return nil
}

// insertRow adds one row; get(col) returns (value, isSet). Returns the new row id.
func (st *State) insertRow(t *entTable, get func(col string) (*Term, *Term)) *Term {
	now := st.clockNow()
	idv, idset := get("id")
	fresh := st.fresh("newid", SInt)
	id := st.define("id", Ite(idset, idv, fresh))
	st.assume(Gt(id, IntLit(0)))
	st.assume(Not(st.rowLive(st.heap, t, id)))
	// a new primary key is not referenced by any existing row (referential integrity of the pre-state)
	st.freshRowFacts(t, id)
	for _, c := range t.Cols {
		if c.Name == "id" {
			arr := st.colArr(st.heap, t, "id")
			st.heapSet(tblKey(t.Name, "id"), Store(arr, id, id))
			continue
		}
		v, set := get(c.Name)
		def := st.defaultOf(t, c, now)
		val := v
		if def != nil {
			val = Ite(set, v, def)
		} else if !c.Nullable {
			// required column: ent's validators fail the Save when it is missing
			st.assume(set)
		}
		arr := st.colArr(st.heap, t, c.Name)
		st.heapSet(tblKey(t.Name, c.Name), Store(arr, id, val))
		if c.Nullable {
			isNull := Not(set)
			if def != nil {
				isNull = TFalse
			}
			na := st.heapGet(st.heap, tblNull(t.Name, c.Name), ArrS(SInt, SBool), false)
			st.heapSet(tblNull(t.Name, c.Name), Store(na, id, isNull))
		}
	}
	la := st.heapGet(st.heap, tblLive(t.Name), ArrS(SInt, SBool), false)
	st.heapSet(tblLive(t.Name), Store(la, id, TTrue))
	// unique (name, live) index: the insert succeeded, so no other live row has the same name
	if t.ByName["name"] != nil && t.ByName["live"] != nil {
		x := st.qv("x")
		liveCol := func(r *Term) *Term { return And(Not(st.colNull(st.heap, t, "live", r)), st.colGet(st.heap, t, "live", r)) }
		st.assume(Forall([]*Term{x}, Implies(And(st.rowLive(st.heap, t, x), Neq(x, id), liveCol(x), liveCol(id)), Neq(st.colGet(st.heap, t, "name", x), st.colGet(st.heap, t, "name", id)))))
	}
	st.rowHook(st.heap, t, func(x *Term) *Term { return Eq(x, id) })
	return id
}

// freshRowFacts: in the pre-state no live row references the (not yet existing) row id.
func (st *State) freshRowFacts(t *entTable, id *Term) {
	for _, u := range st.e.ent.Tables {
		for _, fk := range u.FKs {
			if fk.RefTable != t.Name {
				continue
			}
			y := st.qv("y")
			st.assume(Forall([]*Term{y}, Implies(And(st.rowLive(st.heap, u, y), Not(st.colNull(st.heap, u, fk.Col, y))), Neq(st.colGet(st.heap, u, fk.Col, y), id))))
		}
	}
}

func (st *State) bulkMethod(fr *Frame, in ssa.CallInstruction, callee *ssa.Function, t *entTable, name string, args []SVal, k func(st *State, res SVal)) {
	bv, ok := args[0].(*bulkV)
	if !ok {
		st.unsupported("ent: CreateBulk receiver lost")
	}
	switch name {
	case "Save", "Exec", "SaveX", "ExecX":
		results := callee.Signature.Results()
		st.stmt()
		st.e.note(st.u.name, "intrinsic", "ent "+t.Entity+" createbulk."+name)
		st.entFail(results, k)
		st.insertRows(t, bv.Items)
		var res SVal
		if results.Len() == 2 {
			res = st.freshVal("bulk", results.At(0).Type())
		}
		k(st, st.resultWithErr(results, IntLit(0), res))
	default:
		st.unsupported("ent: %sCreateBulk.%s is not modelled", t.Entity, name)
	}
}

// insertRows: one new row per element of the builder slice.
func (st *State) insertRows(t *entTable, items *SliceV) {
	h := st.snapshot()
	n := items.Len
	now := st.clockNow()
	nid := st.fresh("newids", ArrS(SInt, SInt))
	inv := st.fresh("newinv", ArrS(SInt, SInt))
	i := st.qv("i")
	inR := func(i *Term) *Term { return And(Ge(i, IntLit(0)), Lt(i, n)) }
	elemKey := "E|" + typeKey(items.Elem) + "|"
	elems := Select(st.heapGet(h, elemKey, ArrS(SInt, ArrS(SInt, SInt)), true), items.Base)
	cbOf := func(i *Term) *Term { return Select(elems, Add(items.Off, i)) }
	ni := Select(nid, i)
	st.assume(Forall([]*Term{i}, Implies(inR(i), And(Gt(ni, IntLit(0)), Not(st.rowLive(h, t, ni)), Eq(Select(inv, ni), i))), ni))
	// new ids are not referenced by existing rows
	for _, u := range st.e.ent.Tables {
		for _, fk := range u.FKs {
			if fk.RefTable != t.Name {
				continue
			}
			y := st.qv("y")
			ref := st.colGet(h, u, fk.Col, y)
			isNew := And(inR(Select(inv, ref)), Eq(Select(nid, Select(inv, ref)), ref))
			st.assume(Forall([]*Term{y}, Implies(And(st.rowLive(h, u, y), Not(st.colNull(h, u, fk.Col, y))), Not(isNew))))
		}
	}
	isNew := func(x *Term) *Term { return And(inR(Select(inv, x)), Eq(Select(nid, Select(inv, x)), x)) }
	for _, c := range t.Cols {
		c := c
		if c.Name == "id" {
			st.heapUpdateQ(tblKey(t.Name, "id"), ArrS(SInt, c.Sort), false, func(x, old *Term) *Term { return Ite(isNew(x), x, old) })
			continue
		}
		def := st.defaultOf(t, c, now)
		st.heapUpdateQ(tblKey(t.Name, c.Name), ArrS(SInt, c.Sort), false, func(x, old *Term) *Term {
			v, set := st.cbVal(h, t, cbOf(Select(inv, x)), c.Name)
			val := v
			if def != nil {
				val = Ite(set, v, def)
			}
			return Ite(isNew(x), val, old)
		})
		if c.Nullable {
			st.heapUpdateQ(tblNull(t.Name, c.Name), ArrS(SInt, SBool), false, func(x, old *Term) *Term {
				_, set := st.cbVal(h, t, cbOf(Select(inv, x)), c.Name)
				isNull := Not(set)
				if def != nil {
					isNull = TFalse
				}
				return Ite(isNew(x), isNull, old)
			})
		} else if def == nil {
			_, set := st.cbVal(h, t, cbOf(i), c.Name)
			st.assume(Forall([]*Term{i}, Implies(inR(i), set)))
		}
	}
	st.heapUpdateQ(tblLive(t.Name), ArrS(SInt, SBool), false, func(x, old *Term) *Term { return Or(old, isNew(x)) })
	// bridge for the solver, triggered by a builder element: the row created for the i-th builder
	{
		var facts []*Term
		facts = append(facts, Eq(Select(inv, ni), i), st.rowLive(st.heap, t, ni), Not(st.rowLive(h, t, ni)))
		for _, c := range t.Cols {
			if c.Name == "id" {
				continue
			}
			v, set := st.cbVal(h, t, cbOf(i), c.Name)
			facts = append(facts, Implies(set, Eq(st.colGet(st.heap, t, c.Name, ni), v)))
		}
		st.assume(ForallAlt([]*Term{i}, Implies(inR(i), And(facts...)), [][]*Term{{cbOf(i)}, {ni}}))
	}
	st.ghostObj["lastbulk"] = &bulkInfo{nid: nid, inv: inv, n: n}
	_ = fmt.Sprint
}

type bulkInfo struct{ nid, inv, n *Term }
