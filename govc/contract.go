package main

import (
	"bufio"
	"fmt"
	"os"
	"path/filepath"
	"regexp"
	"strings"
)

// Clause is one labelled contract expression.
type Clause struct {
	Label string
	Src   string
	E     *Expr
	Props []string // property tags (defaults to the contract's)
	File  string
	Line  int
}

// GhostUpdate is one ghost assignment g(args) := value.
type GhostUpdate struct {
	Name  string
	Args  []*Expr
	Value *Expr
	Src   string
}

type LoopSpec struct {
	Ordinal int
	Over    string
	Ghost   []*GhostUpdate // "ghostset g(args) := e" of the loop: run when the loop is first reached and whenever control leaves the body
	Invs    []*Clause
	Mods    []string
	HasMods bool
}

// Contract is the specification block of one function (or function literal).
type Contract struct {
	Pkg       string // package path
	Func      string // RelString name, e.g. "(*Condition).Evaluate", "andTerms", "(*Set).Check$1"
	Params    []string
	Results   []string
	Props     []string
	Uses      []string
	Requires  []*Clause
	Ensures   []*Clause
	Loops     []*LoopSpec
	Modifies  []string
	HasMods   bool
	Allocates []string // arrays in which the function only writes objects it allocates itself
	NoPanic   bool
	Checked   bool
	Trusted   bool
	Native    bool // native string theory
	Inline    bool
	Options   map[string]string
	GhostEns  []*Clause // definitional ensures about ghost state: assumed at call sites, not checked in the unit itself
	GhostSet  []*Clause // "name := expr": ghost assignments performed on return (definitional, applied at call sites)
	File      string
	Line      int
	Bound     bool
}

func (c *Contract) Key() string { return c.Pkg + "." + c.Func }

type SpecFunc struct {
	Name    string
	Kind    string // pure ghost define const
	Params  []QVar
	Result  string
	Body    *Expr
	BodySrc string
	Module  string
}

type SpecModule struct {
	Name    string
	Pkg     string // package path for type resolution
	Funcs   []*SpecFunc
	Axioms  []*Clause
	Lemmas  []*Clause
	Imports []string
	File    string
}

type Specs struct {
	Contracts map[string]*Contract // by Key
	Order     []*Contract
	Modules   map[string]*SpecModule
	Funcs     map[string]*SpecFunc
	Assumes   []string // forbidden constructs found
}

var funcHdrRe = regexp.MustCompile(`^func\s+(.+?)\s*\(([^()]*)\)\s*(?:\(([^()]*)\))?\s*$`)
var propIDRe = regexp.MustCompile(`^C[0-9][0-9]$`)
var labelRe = regexp.MustCompile(`^([A-Za-z_][A-Za-z0-9_]*)\s*:([^:].*)$`)

var clauseKeywords = map[string]bool{"func": true, "property": true, "uses": true, "requires": true, "ensures": true, "modifies": true, "allocates": true, "nopanic": true, "checked": true, "trusted": true, "abstract": true, "ghostset": true, "ghostensures": true, "strings": true, "loop": true, "invariant": true, "inline": true, "option": true, "assume": true,
	"module": true, "package": true, "pure": true, "ghost": true, "define": true, "axiom": true, "lemma": true, "const": true, "import": true}

func splitList(s string) []string {
	var out []string
	for _, f := range strings.Split(s, ",") {
		f = strings.TrimSpace(f)
		if f != "" {
			out = append(out, f)
		}
	}
	return out
}

// logicalLines joins continuation lines: a line whose first word is not a
// keyword continues the previous one.
type logicalLine struct {
	text string
	line int
}

func logicalLines(raw []logicalLine) []logicalLine {
	var out []logicalLine
	for _, l := range raw {
		t := strings.TrimSpace(l.text)
		if t == "" || strings.HasPrefix(t, "#") {
			continue
		}
		first := t
		if i := strings.IndexAny(t, " \t("); i >= 0 {
			first = t[:i]
		}
		if !clauseKeywords[first] && len(out) > 0 {
			out[len(out)-1].text += " " + t
			continue
		}
		out = append(out, logicalLine{t, l.line})
	}
	return out
}

func stripComment(s string) string {
	// "//" inside an expression never occurs (no division-by-comment); strip trailing comments
	inStr := false
	for i := 0; i+1 < len(s); i++ {
		if s[i] == '"' && (i == 0 || s[i-1] != '\\') {
			inStr = !inStr
		}
		if !inStr && s[i] == '/' && s[i+1] == '/' {
			return s[:i]
		}
	}
	return s
}

func parseClause(rest, file string, line int) (*Clause, error) {
	rest = strings.TrimSpace(rest)
	c := &Clause{File: file, Line: line}
	if strings.HasPrefix(rest, "[C") {
		if i := strings.Index(rest, "]"); i > 0 {
			c.Props = strings.Fields(strings.ReplaceAll(rest[1:i], ",", " "))
			rest = strings.TrimSpace(rest[i+1:])
		}
	}
	if m := labelRe.FindStringSubmatch(rest); m != nil {
		c.Label = m[1]
		rest = strings.TrimSpace(m[2])
	}
	// optional property tags in square brackets: [C01,C03] expr
	if strings.HasPrefix(rest, "[C") {
		if i := strings.Index(rest, "]"); i > 0 {
			c.Props = strings.Fields(strings.ReplaceAll(rest[1:i], ",", " "))
			rest = strings.TrimSpace(rest[i+1:])
		}
	}
	for _, p := range c.Props {
		if !propIDRe.MatchString(p) {
			return nil, fmt.Errorf("%s:%d: bad property tag %q (a clause tagged with an unknown property would never be checked)", file, line, p)
		}
	}
	e, err := parseExpr(rest)
	if err != nil {
		return nil, fmt.Errorf("%s:%d: %v", file, line, err)
	}
	c.E = e
	c.Src = rest
	return c, nil
}

func (s *Specs) loadContractFile(path, pkgPath string) error {
	f, err := os.Open(path)
	if err != nil {
		return err
	}
	defer f.Close()
	var raw []logicalLine
	sc := bufio.NewScanner(f)
	sc.Buffer(make([]byte, 1<<20), 1<<20)
	n := 0
	for sc.Scan() {
		n++
		t := strings.TrimSpace(sc.Text())
		if strings.HasPrefix(t, "//@") {
			raw = append(raw, logicalLine{stripComment(t[3:]), n})
		} else if strings.HasPrefix(t, "// @") {
			raw = append(raw, logicalLine{stripComment(t[4:]), n})
		}
	}
	var cur *Contract
	var curLoop *LoopSpec
	for _, l := range logicalLines(raw) {
		kw, rest := l.text, ""
		if i := strings.IndexAny(l.text, " \t"); i >= 0 {
			kw, rest = l.text[:i], strings.TrimSpace(l.text[i+1:])
		}
		if kw == "func" {
			m := funcHdrRe.FindStringSubmatch(l.text)
			if m == nil {
				return fmt.Errorf("%s:%d: bad func header %q", path, l.line, l.text)
			}
			cur = &Contract{Pkg: pkgPath, Func: strings.TrimSpace(m[1]), Params: splitList(m[2]), Results: splitList(m[3]), File: path, Line: l.line, Options: map[string]string{}}
			curLoop = nil
			if _, dup := s.Contracts[cur.Key()]; dup {
				return fmt.Errorf("%s:%d: duplicate contract for %s", path, l.line, cur.Key())
			}
			s.Contracts[cur.Key()] = cur
			s.Order = append(s.Order, cur)
			continue
		}
		if cur == nil {
			return fmt.Errorf("%s:%d: clause outside func block: %q", path, l.line, l.text)
		}
		switch kw {
		case "property":
			cur.Props = append(cur.Props, strings.Fields(strings.ReplaceAll(rest, ",", " "))...)
		case "uses":
			cur.Uses = append(cur.Uses, strings.Fields(strings.ReplaceAll(rest, ",", " "))...)
		case "ghostensures":
			c, err := parseClause(rest, path, l.line)
			if err != nil {
				return err
			}
			cur.GhostEns = append(cur.GhostEns, c)
		case "requires", "ensures", "invariant":
			c, err := parseClause(rest, path, l.line)
			if err != nil {
				return err
			}
			switch kw {
			case "requires":
				cur.Requires = append(cur.Requires, c)
			case "ensures":
				cur.Ensures = append(cur.Ensures, c)
			case "invariant":
				if curLoop == nil {
					return fmt.Errorf("%s:%d: invariant outside loop", path, l.line)
				}
				curLoop.Invs = append(curLoop.Invs, c)
			}
		case "modifies":
			if curLoop != nil {
				curLoop.HasMods = true
				if rest != "nothing" {
					curLoop.Mods = append(curLoop.Mods, splitList(rest)...)
				}
			} else {
				cur.HasMods = true
				if rest != "nothing" {
					cur.Modifies = append(cur.Modifies, splitList(rest)...)
				}
			}
		case "allocates":
			cur.HasMods = true
			cur.Allocates = append(cur.Allocates, splitList(rest)...)
		case "ghostset":
			i := strings.Index(rest, ":=")
			if i < 0 {
				return fmt.Errorf("%s:%d: ghostset NAME := expr", path, l.line)
			}
			c, err := parseClause(rest[i+2:], path, l.line)
			if err != nil {
				return err
			}
			c.Label = strings.TrimSpace(rest[:i])
			if curLoop != nil {
				lhs, err := parseClause(rest[:i], path, l.line)
				if err != nil {
					return err
				}
				gu := &GhostUpdate{Value: c.E, Src: rest}
				switch lhs.E.Kind {
				case "ident":
					gu.Name = lhs.E.Name
				case "call":
					gu.Name, gu.Args = lhs.E.Name, lhs.E.Args
				default:
					return fmt.Errorf("%s:%d: ghostset NAME(args) := expr", path, l.line)
				}
				curLoop.Ghost = append(curLoop.Ghost, gu)
				break
			}
			cur.GhostSet = append(cur.GhostSet, c)
		case "nopanic":
			cur.NoPanic = true
		case "checked":
			cur.Checked = true
		case "trusted", "abstract":
			cur.Trusted = true
		case "inline":
			cur.Inline = true
		case "strings":
			cur.Native = rest == "native"
		case "option":
			fs := strings.Fields(rest)
			if len(fs) >= 1 {
				v := "true"
				if len(fs) >= 2 {
					v = strings.Join(fs[1:], " ")
				}
				cur.Options[fs[0]] = v
			}
		case "loop":
			fs := strings.Fields(rest)
			ls := &LoopSpec{}
			if len(fs) == 0 {
				return fmt.Errorf("%s:%d: loop needs an ordinal", path, l.line)
			}
			fmt.Sscanf(fs[0], "%d", &ls.Ordinal)
			if len(fs) >= 3 && fs[1] == "over" {
				ls.Over = fs[2]
			}
			cur.Loops = append(cur.Loops, ls)
			curLoop = ls
		case "assume":
			s.Assumes = append(s.Assumes, fmt.Sprintf("%s:%d: %s", path, l.line, l.text))
		default:
			return fmt.Errorf("%s:%d: unknown clause %q", path, l.line, kw)
		}
	}
	return nil
}

var specFnRe = regexp.MustCompile(`^([A-Za-z_][A-Za-z0-9_]*)\s*\(([^()]*)\)\s*([^=]*?)\s*(?:=\s*(.*))?$`)

func parseParamList(s string) []QVar {
	var out []QVar
	// split at top-level commas
	depth := 0
	start := 0
	var parts []string
	for i, c := range s {
		switch c {
		case '[', '(':
			depth++
		case ']', ')':
			depth--
		case ',':
			if depth == 0 {
				parts = append(parts, s[start:i])
				start = i + 1
			}
		}
	}
	parts = append(parts, s[start:])
	for _, p := range parts {
		p = strings.TrimSpace(p)
		if p == "" {
			continue
		}
		i := strings.IndexAny(p, " \t")
		if i < 0 {
			out = append(out, QVar{p, "int"})
			continue
		}
		out = append(out, QVar{p[:i], strings.ReplaceAll(strings.TrimSpace(p[i+1:]), " ", "")})
	}
	return out
}

func (s *Specs) loadSpecFile(path string) error {
	data, err := os.ReadFile(path)
	if err != nil {
		return err
	}
	var raw []logicalLine
	for i, t := range strings.Split(string(data), "\n") {
		raw = append(raw, logicalLine{stripComment(t), i + 1})
	}
	var mod *SpecModule
	for _, l := range logicalLines(raw) {
		kw, rest := l.text, ""
		if i := strings.IndexAny(l.text, " \t"); i >= 0 {
			kw, rest = l.text[:i], strings.TrimSpace(l.text[i+1:])
		}
		if kw == "module" {
			mod = &SpecModule{Name: rest, File: path}
			if _, dup := s.Modules[rest]; dup {
				return fmt.Errorf("%s:%d: duplicate module %s", path, l.line, rest)
			}
			s.Modules[rest] = mod
			continue
		}
		if mod == nil {
			return fmt.Errorf("%s:%d: clause outside module", path, l.line)
		}
		switch kw {
		case "package":
			mod.Pkg = rest
		case "import":
			mod.Imports = append(mod.Imports, strings.Fields(rest)...)
		case "pure", "ghost", "define", "const":
			m := specFnRe.FindStringSubmatch(rest)
			if kw == "const" {
				fs := strings.Fields(rest)
				if len(fs) != 2 {
					return fmt.Errorf("%s:%d: const NAME TYPE", path, l.line)
				}
				fn := &SpecFunc{Name: fs[0], Kind: "const", Result: fs[1], Module: mod.Name}
				mod.Funcs = append(mod.Funcs, fn)
				s.Funcs[fn.Name] = fn
				continue
			}
			if m == nil {
				return fmt.Errorf("%s:%d: bad spec function %q", path, l.line, rest)
			}
			fn := &SpecFunc{Name: m[1], Kind: kw, Params: parseParamList(m[2]), Result: strings.TrimSpace(m[3]), Module: mod.Name}
			if fn.Result == "" {
				fn.Result = "bool"
			}
			if kw == "define" {
				if m[4] == "" {
					return fmt.Errorf("%s:%d: define needs a body", path, l.line)
				}
				e, err := parseExpr(m[4])
				if err != nil {
					return fmt.Errorf("%s:%d: %v", path, l.line, err)
				}
				fn.Body = e
				fn.BodySrc = m[4]
			}
			if _, dup := s.Funcs[fn.Name]; dup {
				return fmt.Errorf("%s:%d: duplicate spec function %s", path, l.line, fn.Name)
			}
			mod.Funcs = append(mod.Funcs, fn)
			s.Funcs[fn.Name] = fn
		case "axiom", "lemma":
			c, err := parseClause(rest, path, l.line)
			if err != nil {
				return err
			}
			if kw == "axiom" {
				mod.Axioms = append(mod.Axioms, c)
			} else {
				mod.Lemmas = append(mod.Lemmas, c)
			}
		case "assume":
			s.Assumes = append(s.Assumes, fmt.Sprintf("%s:%d: %s", path, l.line, l.text))
		default:
			return fmt.Errorf("%s:%d: unknown spec clause %q", path, l.line, kw)
		}
	}
	return nil
}

func loadSpecs(repo, specDir, modPath string) (*Specs, error) {
	s := &Specs{Contracts: map[string]*Contract{}, Modules: map[string]*SpecModule{}, Funcs: map[string]*SpecFunc{}}
	specFiles, _ := filepath.Glob(filepath.Join(specDir, "*.spec"))
	for _, f := range specFiles {
		if err := s.loadSpecFile(f); err != nil {
			return nil, err
		}
	}
	err := filepath.Walk(repo, func(p string, info os.FileInfo, err error) error {
		if err != nil {
			return nil
		}
		if info.IsDir() && (info.Name() == ".git" || info.Name() == "node_modules") {
			return filepath.SkipDir
		}
		if !info.IsDir() && info.Name() == "verif_contracts.go" {
			rel, _ := filepath.Rel(repo, filepath.Dir(p))
			pkg := modPath
			if rel != "." {
				pkg = modPath + "/" + filepath.ToSlash(rel)
			}
			if err := s.loadContractFile(p, pkg); err != nil {
				return err
			}
		}
		return nil
	})
	return s, err
}
