package main

import (
	"fmt"
	"go/types"
	"math/big"
	"sort"
	"strings"

	"golang.org/x/tools/go/ssa"
)

func reg(name string, mods []string, fn func(st *State, fr *Frame, call ssa.CallInstruction, args []SVal) (SVal, bool)) {
	intrinsics[name] = &intrinsic{mods: mods, fn: fn}
}

func (st *State) newErr(prefix string) *Term {
	e := st.fresh(prefix, SInt)
	// a newly produced error value is not one of the package-level sentinel errors
	st.assume(And(Gt(e, IntLit(0)), Lt(e, IntLit(900000000))))
	if st.nonzero == nil {
		st.nonzero = map[string]bool{}
	}
	st.nonzero[e.S] = true
	return e
}

func init() {
	// --- strings -------------------------------------------------------------
	reg("strings.HasPrefix", nil, func(st *State, fr *Frame, call ssa.CallInstruction, a []SVal) (SVal, bool) {
		return st.strPrefix(st.scalar(a[0]), st.scalar(a[1])), true
	})
	reg("strings.TrimPrefix", nil, func(st *State, fr *Frame, call ssa.CallInstruction, a []SVal) (SVal, bool) {
		f := st.declareFun("str_trimprefix", []Sort{SStr, SStr}, SStr)
		return App(SStr, f, st.scalar(a[0]), st.scalar(a[1])), true
	})
	// --- math / time ---------------------------------------------------------
	reg("math.Pow", nil, func(st *State, fr *Frame, call ssa.CallInstruction, a []SVal) (SVal, bool) {
		return st.powReal(ToReal(st.scalar(a[0])), ToReal(st.scalar(a[1]))), true
	})
	reg("(time.Duration).Seconds", nil, func(st *State, fr *Frame, call ssa.CallInstruction, a []SVal) (SVal, bool) {
		return App(SReal, "/", ToReal(st.scalar(a[0])), RealLit(1e9)), true
	})
	reg("time.Now", nil, func(st *State, fr *Frame, call ssa.CallInstruction, a []SVal) (SVal, bool) {
		return st.clockNow(), true
	})
	reg("(time.Time).Add", nil, func(st *State, fr *Frame, call ssa.CallInstruction, a []SVal) (SVal, bool) {
		return Add(st.scalar(a[0]), st.scalar(a[1])), true
	})
	reg("(time.Time).Sub", nil, func(st *State, fr *Frame, call ssa.CallInstruction, a []SVal) (SVal, bool) {
		return Sub(st.scalar(a[0]), st.scalar(a[1])), true
	})
	reg("(time.Time).Before", nil, func(st *State, fr *Frame, call ssa.CallInstruction, a []SVal) (SVal, bool) {
		return Lt(st.scalar(a[0]), st.scalar(a[1])), true
	})
	reg("(time.Time).After", nil, func(st *State, fr *Frame, call ssa.CallInstruction, a []SVal) (SVal, bool) {
		return Gt(st.scalar(a[0]), st.scalar(a[1])), true
	})
	reg("(time.Time).Equal", nil, func(st *State, fr *Frame, call ssa.CallInstruction, a []SVal) (SVal, bool) {
		return Eq(st.scalar(a[0]), st.scalar(a[1])), true
	})
	reg("(time.Time).IsZero", nil, func(st *State, fr *Frame, call ssa.CallInstruction, a []SVal) (SVal, bool) {
		return Eq(st.scalar(a[0]), IntLit(0)), true
	})
	reg("time.Until", nil, func(st *State, fr *Frame, call ssa.CallInstruction, a []SVal) (SVal, bool) {
		return Sub(st.scalar(a[0]), st.clockNow()), true
	})
	reg("time.Since", nil, func(st *State, fr *Frame, call ssa.CallInstruction, a []SVal) (SVal, bool) {
		return Sub(st.clockNow(), st.scalar(a[0])), true
	})
	reg("github.com/google/uuid.New", nil, func(st *State, fr *Frame, call ssa.CallInstruction, a []SVal) (SVal, bool) {
		id := st.fresh("uuid", SInt)
		st.assume(Gt(id, IntLit(0)))
		return id, true
	})
	reg("(github.com/google/uuid.UUID).String", nil, func(st *State, fr *Frame, call ssa.CallInstruction, a []SVal) (SVal, bool) {
		return st.uuidStr(st.scalar(a[0])), true
	})
	reg("github.com/google/uuid.Parse", nil, func(st *State, fr *Frame, call ssa.CallInstruction, a []SVal) (SVal, bool) {
		// the canonical text form parses back to the same id (assumed of the uuid package)
		s := st.scalar(a[0])
		id := st.fresh("parsed", SInt)
		e := st.fresh("parseerr", SInt)
		st.assume(Ge(e, IntLit(0)))
		st.assume(Implies(Eq(e, IntLit(0)), Eq(id, st.uuidParse(s))))
		return &TupleV{[]SVal{id, e}}, true
	})
	// time.Duration text form: String and ParseDuration are exact inverses (assumed of package time)
	reg("(time.Duration).String", nil, func(st *State, fr *Frame, call ssa.CallInstruction, a []SVal) (SVal, bool) {
		return st.durStr(st.scalar(a[0])), true
	})
	reg("time.ParseDuration", nil, func(st *State, fr *Frame, call ssa.CallInstruction, a []SVal) (SVal, bool) {
		s := st.scalar(a[0])
		st.durStr(IntLit(0)) // declares the functions and the inverse axiom
		d := st.fresh("parseddur", SInt)
		e := st.newErrOrNil("durerr")
		st.assume(Eq(Eq(e, IntLit(0)), App(SBool, "spec.dur_parses", s)))
		st.assume(Implies(Eq(e, IntLit(0)), Eq(d, App(SInt, "spec.dur_parse", s))))
		return &TupleV{[]SVal{d, e}}, true
	})
	// regular expressions: matching is an uninterpreted predicate of (regexp, text); the submatch slice is nil
	// exactly when there is no match and has one entry per group otherwise
	reg("(*regexp.Regexp).FindStringSubmatch", nil, func(st *State, fr *Frame, call ssa.CallInstruction, a []SVal) (SVal, bool) {
		re, s := st.scalar(a[0]), st.scalar(a[1])
		m := st.reMatches(re, s)
		sv := st.freshVal("submatch", call.Common().Signature().Results().At(0).Type()).(*SliceV)
		ng := App(SInt, st.declareFun("spec.re_groups", []Sort{SInt}, SInt), re)
		st.assume(Ge(ng, IntLit(0)))
		st.assume(Ite(m, And(Neq(sv.Base, IntLit(0)), Eq(sv.Len, Add(ng, IntLit(1))), Ge(sv.Cap, sv.Len)), And(Eq(sv.Base, IntLit(0)), Eq(sv.Len, IntLit(0)), Eq(sv.Cap, IntLit(0)))))
		return sv, true
	})
	reg("(*regexp.Regexp).SubexpIndex", nil, func(st *State, fr *Frame, call ssa.CallInstruction, a []SVal) (SVal, bool) {
		re, name := st.scalar(a[0]), st.scalar(a[1])
		ng := App(SInt, st.declareFun("spec.re_groups", []Sort{SInt}, SInt), re)
		r := App(SInt, st.declareFun("spec.re_subexp", []Sort{SInt, SStr}, SInt), re, name)
		st.assume(And(Ge(r, IntLit(-1)), Le(r, ng)))
		return r, true
	})
	// (*http.Client).Do: either a transport error, or a fresh response whose StatusCode is recorded in the ghost http_status
	reg("(*net/http.Client).Do", nil, func(st *State, fr *Frame, call ssa.CallInstruction, a []SVal) (SVal, bool) {
		e := st.fresh("httperr", SInt)
		st.assume(And(Ge(e, IntLit(0)), Lt(e, IntLit(900000000))))
		r := st.allocRef()
		rt := call.Common().Signature().Results().At(0).Type().Underlying().(*types.Pointer).Elem()
		code := st.fresh("httpstatus", SInt)
		su := rt.Underlying().(*types.Struct)
		if idx, _ := findField(su, "StatusCode"); idx >= 0 {
			st.store(st.fieldAddr(st.ptrAddr(r, rt), idx), code)
		}
		if idx, ft := findField(su, "Body"); idx >= 0 {
			// a non-nil body on success (documented)
			bv := st.freshVal("httpbody", ft)
			if iv, ok := bv.(*IfaceV); ok {
				st.assume(Neq(iv.Tag, IntLit(0)))
			}
			st.store(st.fieldAddr(st.ptrAddr(r, rt), idx), bv)
		}
		st.ghostSet("http_failed", nil, Neq(e, IntLit(0)))
		st.ghostSet("http_status", nil, code)
		return &TupleV{[]SVal{Ite(Eq(e, IntLit(0)), r, IntLit(0)), e}}, true
	})
	// json.Marshal(&v): the pointer is recorded in the ghost "posted" (what is serialised is not modelled further)
	reg("encoding/json.Marshal", nil, func(st *State, fr *Frame, call ssa.CallInstruction, a []SVal) (SVal, bool) {
		if iv, ok := a[0].(*IfaceV); ok {
			if _, isPtr := iv.Conc.(*types.Pointer); isPtr || iv.Conc != nil {
				switch p := iv.CVal.(type) {
				case *Term:
					st.ghostSet("posted", nil, p)
				case *AddrV:
					if p.Path == "" {
						st.ghostSet("posted", nil, p.Base)
					}
				}
			}
		}
		e := st.fresh("jsonerr", SInt)
		st.assume(And(Ge(e, IntLit(0)), Lt(e, IntLit(900000000))))
		res := st.freshVal("json", call.Common().Signature().Results().At(0).Type())
		return &TupleV{[]SVal{res, e}}, true
	})
	reg("(*encoding/base64.Encoding).EncodeToString", nil, func(st *State, fr *Frame, call ssa.CallInstruction, a []SVal) (SVal, bool) {
		sv, ok := a[1].(*SliceV)
		if !ok {
			return nil, false
		}
		return st.b64(sv), true
	})
	reg("(time.Time).Format", nil, func(st *State, fr *Frame, call ssa.CallInstruction, a []SVal) (SVal, bool) {
		return App(SStr, st.declareFun("spec.time_format", []Sort{SInt, SStr}, SStr), st.scalar(a[0]), st.scalar(a[1])), true
	})
	// strconv.Atoi: on success the value is the (uninterpreted) decimal reading of the text and fits an int
	reg("strconv.Atoi", nil, func(st *State, fr *Frame, call ssa.CallInstruction, a []SVal) (SVal, bool) {
		s := st.scalar(a[0])
		v := App(SInt, st.declareFun("spec.atoi", []Sort{SStr}, SInt), s)
		e := st.fresh("atoierr", SInt)
		st.assume(And(Ge(e, IntLit(0)), Lt(e, IntLit(900000000))))
		i := st.fresh("atoi", SInt)
		st.assume(Implies(Eq(e, IntLit(0)), And(Eq(i, v), Ge(i, BigLit(new(big.Int).Neg(new(big.Int).Lsh(big.NewInt(1), 63)))), Lt(i, BigLit(new(big.Int).Lsh(big.NewInt(1), 63))))))
		st.assume(Implies(Neq(e, IntLit(0)), Eq(i, IntLit(0))))
		return &TupleV{[]SVal{i, e}}, true
	})
	// math.Pow10(n): exact powers of ten for 0 <= n <= 18, an unknown positive real otherwise
	reg("math.Pow10", nil, func(st *State, fr *Frame, call ssa.CallInstruction, a []SVal) (SVal, bool) {
		n := st.scalar(a[0])
		other := App(SInt, st.declareFun("pow10_int", []Sort{SInt}, SInt), n)
		r := other
		v := new(big.Int).Exp(big.NewInt(10), big.NewInt(18), nil)
		for k := int64(18); k >= 0; k-- {
			r = Ite(Eq(n, IntLit(k)), BigLit(v), r)
			v = new(big.Int).Div(v, big.NewInt(10))
		}
		st.assume(Gt(other, IntLit(0)))
		return App(SReal, "to_real", r), true
	})
	// timestamppb.New(t): a fresh message denoting the instant t; (*Timestamp).AsTime gives it back
	reg("google.golang.org/protobuf/types/known/timestamppb.New", nil, func(st *State, fr *Frame, call ssa.CallInstruction, a []SVal) (SVal, bool) {
		r := st.allocRef()
		st.assume(Eq(st.tsOf(r), st.scalar(a[0])))
		return r, true
	})
	reg("(*google.golang.org/protobuf/types/known/timestamppb.Timestamp).AsTime", nil, func(st *State, fr *Frame, call ssa.CallInstruction, a []SVal) (SVal, bool) {
		return st.tsOf(st.scalar(a[0])), true
	})
	reg("unicode.IsLetter", nil, func(st *State, fr *Frame, call ssa.CallInstruction, a []SVal) (SVal, bool) {
		return App(SBool, st.declareFun("unicode_isletter", []Sort{SInt}, SBool), st.scalar(a[0])), true
	})
	reg("unicode.IsDigit", nil, func(st *State, fr *Frame, call ssa.CallInstruction, a []SVal) (SVal, bool) {
		return App(SBool, st.declareFun("unicode_isdigit", []Sort{SInt}, SBool), st.scalar(a[0])), true
	})
	reg("strconv.Quote", nil, func(st *State, fr *Frame, call ssa.CallInstruction, a []SVal) (SVal, bool) {
		return st.strQuote(st.scalar(a[0])), true
	})
	reg("sort.Slice", []string{"E:*"}, func(st *State, fr *Frame, call ssa.CallInstruction, a []SVal) (SVal, bool) {
		return st.sortSlice(a[0]), true
	})
	// --- errors ----------------------------------------------------------------
	newErr := func(st *State, fr *Frame, call ssa.CallInstruction, a []SVal) (SVal, bool) {
		return st.newErr("err"), true
	}
	reg("errors.As", []string{"B:*"}, func(st *State, fr *Frame, call ssa.CallInstruction, a []SVal) (SVal, bool) {
		// errors.As(err, &target): when it reports true, *target has been set to a non-nil value
		okv := st.fresh("errors.as", SBool)
		iv, isI := a[1].(*IfaceV)
		if !isI || iv.Conc == nil {
			return okv, true
		}
		pt, isP := iv.Conc.Underlying().(*types.Pointer)
		if !isP {
			return okv, true
		}
		cell := st.ptrAddr(iv.CVal, pt.Elem())
		cur := st.load(st.heap, cell)
		nv := st.freshVal("as.target", pt.Elem())
		if t, ok := nv.(*Term); ok && t.Sort == SInt {
			st.assume(Implies(okv, Neq(t, IntLit(0))))
		}
		st.store(cell, st.iteVal(okv, nv, cur, pt.Elem()))
		st.assume(Implies(okv, Neq(st.scalar(a[0]), IntLit(0))))
		return okv, true
	})
	reg("errors.Is", nil, func(st *State, fr *Frame, call ssa.CallInstruction, a []SVal) (SVal, bool) {
		e, target := st.scalar(a[0]), st.scalar(a[1])
		r := st.fresh("errors.is", SBool)
		// identical errors match; a nil error matches nothing (wrapping is not modelled further)
		st.assume(Implies(Eq(e, target), Or(r, Eq(e, IntLit(0)))))
		st.assume(Implies(And(Eq(e, IntLit(0)), Neq(target, IntLit(0))), Not(r)))
		return r, true
	})
	reg("google.golang.org/protobuf/proto.Clone", nil, func(st *State, fr *Frame, call ssa.CallInstruction, a []SVal) (SVal, bool) {
		// a deep copy: a fresh, non-nil message of the same dynamic type (contents not modelled)
		iv, ok := a[0].(*IfaceV)
		if !ok {
			return nil, false
		}
		r := st.allocRef()
		return &IfaceV{Tag: iv.Tag, Val: r, Conc: iv.Conc, CVal: r}, true
	})
	reg("google.golang.org/protobuf/types/known/durationpb.New", nil, func(st *State, fr *Frame, call ssa.CallInstruction, a []SVal) (SVal, bool) {
		r := st.allocRef()
		st.assume(Eq(st.durOf(r), st.scalar(a[0])))
		return r, true
	})
	reg("(*google.golang.org/protobuf/types/known/durationpb.Duration).AsDuration", nil, func(st *State, fr *Frame, call ssa.CallInstruction, a []SVal) (SVal, bool) {
		p := st.scalar(a[0])
		return Ite(Eq(p, IntLit(0)), IntLit(0), st.durOf(p)), true
	})
	reg("errors.New", nil, newErr)
	reg("fmt.Errorf", nil, newErr)
	reg("google.golang.org/grpc/status.Error", nil, func(st *State, fr *Frame, call ssa.CallInstruction, a []SVal) (SVal, bool) {
		// status.Error(codes.OK, ..) returns nil
		e := st.fresh("staterr", SInt)
		code := st.scalar(a[0])
		st.assume(Ge(e, IntLit(0)))
		st.assume(Eq(Eq(e, IntLit(0)), Eq(code, IntLit(0))))
		st.assume(Eq(st.errCode(e), code))
		return e, true
	})
	reg("google.golang.org/grpc/status.Errorf", nil, func(st *State, fr *Frame, call ssa.CallInstruction, a []SVal) (SVal, bool) {
		e := st.fresh("staterr", SInt)
		code := st.scalar(a[0])
		st.assume(Ge(e, IntLit(0)))
		st.assume(Eq(Eq(e, IntLit(0)), Eq(code, IntLit(0))))
		st.assume(Eq(st.errCode(e), code))
		return e, true
	})
	// --- sync ------------------------------------------------------------------
	lockOp := func(kind string) func(st *State, fr *Frame, call ssa.CallInstruction, a []SVal) (SVal, bool) {
		return func(st *State, fr *Frame, call ssa.CallInstruction, a []SVal) (SVal, bool) {
			st.lockEvent(kind, a[0])
			return nil, true
		}
	}
	reg("(*sync.RWMutex).Lock", nil, lockOp("lock"))
	reg("(*sync.RWMutex).Unlock", nil, lockOp("unlock"))
	reg("(*sync.RWMutex).RLock", nil, lockOp("rlock"))
	reg("(*sync.RWMutex).RUnlock", nil, lockOp("runlock"))
	reg("(*sync.Mutex).Lock", nil, lockOp("lock"))
	reg("(*sync.Mutex).Unlock", nil, lockOp("unlock"))
	// --- sync/atomic -----------------------------------------------------------
	reg("sync/atomic.LoadInt64", nil, func(st *State, fr *Frame, call ssa.CallInstruction, a []SVal) (SVal, bool) {
		addr := st.ptrAddr(a[0], types.Typ[types.Int64])
		st.atomicInterference(addr)
		return st.load(st.heap, addr), true
	})
	reg("sync/atomic.AddInt64", []string{"$arg0"}, func(st *State, fr *Frame, call ssa.CallInstruction, a []SVal) (SVal, bool) {
		addr := st.ptrAddr(a[0], types.Typ[types.Int64])
		st.atomicInterference(addr)
		old := st.scalar(st.load(st.heap, addr))
		nv := st.define("atomic", Add(old, st.scalar(a[1])))
		st.store(addr, nv)
		return nv, true
	})
	reg("sync/atomic.StoreInt64", []string{"$arg0"}, func(st *State, fr *Frame, call ssa.CallInstruction, a []SVal) (SVal, bool) {
		addr := st.ptrAddr(a[0], types.Typ[types.Int64])
		st.store(addr, a[1])
		return nil, true
	})
}

// atomicInterference models other threads changing an atomically accessed
// cell between two atomic operations: the cell is havocked before each access
// unless the unit declares the cell race-free (option atomic-stable).
func (st *State) atomicInterference(addr *AddrV) {
	if st.u.c.Options["atomic"] != "interference" {
		return
	}
	v := st.fresh("racy", SInt)
	st.store(addr, v)
}

// powReal: x^y over the reals, uninterpreted except for positivity of positive bases
// (float64 rounding is not modelled: listed assumption).
func (st *State) powReal(x, y *Term) *Term {
	f := st.declareFun("pow_real", []Sort{SReal, SReal}, SReal)
	r := App(SReal, f, x, y)
	if !st.declared["axiom:pow_real"] {
		st.declared["axiom:pow_real"] = true
		a, b := Const("a!qpow", SReal), Const("b!qpow", SReal)
		st.assume(Forall([]*Term{a, b}, Implies(Gt(a, RealLit(0)), Gt(App(SReal, f, a, b), RealLit(0))), App(SReal, f, a, b)))
	}
	return r
}

func (st *State) durStr(d *Term) *Term {
	f := st.declareFun("spec.dur_str", []Sort{SInt}, SStr)
	g := st.declareFun("spec.dur_parse", []Sort{SStr}, SInt)
	ok := st.declareFun("spec.dur_parses", []Sort{SStr}, SBool)
	if !st.declared["axiom:dur_str"] {
		st.declared["axiom:dur_str"] = true
		x := Const("x!qdur", SInt)
		st.assume(Forall([]*Term{x}, And(App(SBool, ok, App(SStr, f, x)), Eq(App(SInt, g, App(SStr, f, x)), x)), App(SStr, f, x)))
	}
	return App(SStr, f, d)
}

// strQuote: strconv.Quote; the result is longer than its argument (it starts and ends with a double quote)
func (st *State) strQuote(s *Term) *Term {
	f := st.declareFun("str_quote", []Sort{SStr}, SStr)
	if !st.declared["axiom:str_quote"] {
		st.declared["axiom:str_quote"] = true
		x := Const("s!qq", SStr)
		st.assume(Forall([]*Term{x}, Ge(st.strLen(App(SStr, f, x)), Add(st.strLen(x), IntLit(2))), App(SStr, f, x)))
	}
	return App(SStr, f, s)
}

// b64: standard base64 text of a byte slice, a function of the bytes (identified by backing array, offset, length)
func (st *State) b64(sv *SliceV) *Term {
	return App(SStr, st.declareFun("spec.b64", []Sort{SInt, SInt, SInt}, SStr), sv.Base, sv.Off, sv.Len)
}

// tsOf: the instant a *timestamppb.Timestamp denotes
func (st *State) tsOf(p *Term) *Term {
	return App(SInt, st.declareFun("spec.ts_of", []Sort{SInt}, SInt), p)
}

func (st *State) reMatches(re, s *Term) *Term {
	return App(SBool, st.declareFun("spec.re_matches", []Sort{SInt, SStr}, SBool), re, s)
}

// newErrOrNil: an error result that may be nil
func (st *State) newErrOrNil(prefix string) *Term {
	e := st.fresh(prefix, SInt)
	st.assume(And(Ge(e, IntLit(0)), Lt(e, IntLit(900000000))))
	return e
}

func (st *State) uuidStr(id *Term) *Term {
	f := st.declareFun("spec.uuid_str", []Sort{SInt}, SStr)
	g := st.declareFun("spec.uuid_parse", []Sort{SStr}, SInt)
	if !st.declared["axiom:uuid_str"] {
		st.declared["axiom:uuid_str"] = true
		x := Const("x!quuid", SInt)
		st.assume(Forall([]*Term{x}, And(Eq(App(SInt, g, App(SStr, f, x)), x), Eq(st.strLen(App(SStr, f, x)), IntLit(36))), App(SStr, f, x)))
	}
	return App(SStr, f, id)
}

func (st *State) uuidParse(s *Term) *Term {
	return App(SInt, st.declareFun("spec.uuid_parse", []Sort{SStr}, SInt), s)
}

// durOf: the time.Duration a *durationpb.Duration message denotes (protobuf well-known type; the
// seconds/nanos encoding is not modelled, New and AsDuration are assumed mutually inverse).
func (st *State) durOf(p *Term) *Term {
	return App(SInt, st.declareFun("spec.dur_of", []Sort{SInt}, SInt), p)
}

func (st *State) truncReal(x *Term) *Term {
	if strings.HasPrefix(x.S, "(to_real ") && strings.HasSuffix(x.S, ")") {
		// an integer-valued real: truncation is the identity
		return &Term{S: x.S[len("(to_real ") : len(x.S)-1], Sort: SInt}
	}
	return Ite(Ge(x, RealLit(0)), App(SInt, "to_int", x), Sub(IntLit(0), App(SInt, "to_int", App(SReal, "-", x))))
}

func (st *State) errCode(e *Term) *Term {
	f := st.declareFun("err_code", []Sort{SInt}, SInt)
	return App(SInt, f, e)
}

// lock bookkeeping: the set of held locks is engine-side state; lock identity
// is the address term of the mutex.
type lockSet struct{ held map[string]string }

func (l *lockSet) cloneObj() any {
	n := &lockSet{held: map[string]string{}}
	for k, v := range l.held {
		n.held[k] = v
	}
	return n
}

func (st *State) lockEvent(kind string, mu SVal) {
	id := "?"
	switch a := mu.(type) {
	case *AddrV:
		id = a.Key + "|" + a.Path
		if a.Base != nil {
			id += "@" + a.Base.S
		}
	case *Term:
		id = a.S
	}
	ls, _ := st.ghostObj["locks"].(*lockSet)
	if ls == nil {
		ls = &lockSet{held: map[string]string{}}
	} else {
		ls = ls.cloneObj().(*lockSet)
	}
	switch kind {
	case "lock", "rlock":
		ls.held[id] = kind
	case "unlock", "runlock":
		delete(ls.held, id)
	}
	st.ghostObj["locks"] = ls
	st.events = append(st.events, kind+":"+displayKey(id))
}

// genericIntrinsic handles families of dependency functions by shape.
func (st *State) genericIntrinsic(fr *Frame, in ssa.CallInstruction, callee *ssa.Function, args []SVal) (SVal, bool) {
	name := callee.Name()
	if strings.HasPrefix(name, "ParseString") && strings.Contains(callee.String(), "participle/v2.Parser") && len(args) >= 3 {
		return st.parseFilterIntrinsic(st.scalar(args[2]), callee.Signature.Results().At(0).Type()), true
	}
	// protobuf getters: nil-safe field reads, generated code (func (x *T) GetF() F)
	if strings.HasPrefix(name, "Get") && callee.Signature.Recv() != nil && len(args) == 1 && isProtoPkg(callee) {
		pt, ok := callee.Signature.Recv().Type().Underlying().(*types.Pointer)
		if !ok {
			return nil, false
		}
		su, ok := pt.Elem().Underlying().(*types.Struct)
		if !ok {
			return nil, false
		}
		idx, ft := findField(su, strings.TrimPrefix(name, "Get"))
		rt := callee.Signature.Results().At(0).Type()
		if idx < 0 || !types.Identical(ft, rt) {
			return nil, false // oneof getters etc: fall through
		}
		recv := st.scalar(args[0])
		a := st.fieldAddr(st.ptrAddr(recv, pt.Elem()), idx)
		loaded := st.load(st.heap, a)
		return st.iteVal(Neq(recv, IntLit(0)), loaded, st.zeroVal(rt), rt), true
	}
	return nil, false
}

// parseFilterIntrinsic: participle's generated parser for the filter grammar. Success is a function of
// the text alone (uninterpreted predicate spec.parses); a successful parse yields a non-nil AST that is
// well-formed in the sense of spec/filter.spec (assumed of the parser: string->AST is not verified).
func (st *State) parseFilterIntrinsic(text *Term, resT types.Type) SVal {
	parses := st.declareFun("spec.parses", []Sort{SStr}, SBool)
	ok := App(SBool, parses, text)
	ast := st.fresh("filterast", SInt)
	err := st.fresh("parseerr", SInt)
	st.assume(And(Ge(ast, IntLit(0)), Lt(ast, st.watermark()), Ge(err, IntLit(0))))
	st.assume(Eq(ok, Eq(err, IntLit(0))))
	st.assume(Eq(ok, Neq(ast, IntLit(0))))
	astOf := st.declareFun("spec.ast_of", []Sort{SStr}, SInt)
	st.assume(Implies(ok, Eq(ast, App(SInt, astOf, text))))
	if _, has := st.e.specs.Funcs["wf_cond"]; has {
		wf := st.declareFun("spec.wf_cond", []Sort{SInt}, SBool)
		st.assume(Implies(ok, App(SBool, wf, ast)))
	}
	return &TupleV{[]SVal{ast, err}}
}

func isProtoPkg(fn *ssa.Function) bool {
	p := fn.Package()
	if p == nil {
		return false
	}
	path := p.Pkg.Path()
	return strings.HasSuffix(path, "pubsubpb") || strings.Contains(path, "google.golang.org/protobuf/types/known") || strings.Contains(path, "google.golang.org/genproto")
}

func (st *State) invokeIntrinsic(fr *Frame, in ssa.CallInstruction, c *ssa.CallCommon, recv SVal, args []SVal) (SVal, bool) {
	if iv, ok := recv.(*IfaceV); ok {
		if h, ok := iv.CVal.(*EntH); ok && h.Kind == "committer" && c.Method.Name() == "Commit" {
			r, _ := st.ghostObj["commitResult"].(*Term)
			if r == nil {
				st.unsupported("Commit on a hook committer outside hook analysis")
			}
			return r, true
		}
	}
	// context.Context: Done() is a fixed channel of the context; once something was received from it, Err() is non-nil
	if typeKey(c.Value.Type()) == "context.Context" {
		if iv, ok := recv.(*IfaceV); ok {
			id := Add(Mul(iv.Tag, IntLit(1000003)), iv.Val)
			ch := App(SInt, st.declareFun("ctx_done_chan", []Sort{SInt}, SInt), id)
			switch c.Method.Name() {
			case "Done":
				st.assume(Gt(ch, IntLit(0)))
				return ch, true
			case "Err":
				e := st.fresh("ctxerr", SInt)
				st.assume(And(Ge(e, IntLit(0)), Lt(e, IntLit(900000000))))
				st.assume(Implies(st.ghostGet(st.heap, "ctx_done_seen", []*Term{ch}, SBool), Neq(e, IntLit(0))))
				return e, true
			}
		}
	}
	if isErrorType(c.Value.Type()) && c.Method.Name() == "Error" {
		f := st.declareFun("err_msg", []Sort{SInt}, SStr)
		return App(SStr, f, st.scalar(recv)), true
	}
	return nil, false
}

// specBuiltin: engine-defined specification functions.
func (st *State) specBuiltin(env *Env, e *Expr) (SVal, types.Type, bool) {
	switch e.Name {
	case "closed":
		a, _ := st.elab(env, e.Args[0])
		return st.ghostGet(st.view(env), "closed", []*Term{st.scalar(a)}, SBool), tBool, true
	case "pow":
		a, _ := st.elab(env, e.Args[0])
		b, _ := st.elab(env, e.Args[1])
		return st.powReal(ToReal(st.scalar(a)), ToReal(st.scalar(b))), tReal, true
	case "trunc":
		a, _ := st.elab(env, e.Args[0])
		return st.truncReal(ToReal(st.scalar(a))), tInt, true
	case "contains":
		a, _ := st.elab(env, e.Args[0])
		b, _ := st.elab(env, e.Args[1])
		sv, ok := a.(*SliceV)
		if !ok {
			st.unsupported("contains() needs a slice")
		}
		return st.memberOf(st.view(env), sv, st.scalar(b)), tBool, true
	case "uuidslice":
		// the []uuid.UUID value stored in a JSON column (identified by its backing array)
		// uuidslice(isNull, base): exactly the slice an entity object carries for that column
		nl := st.elabBool(env, e.Args[0])
		a, _ := st.elab(env, e.Args[1])
		b := st.scalar(a)
		t := st.resolveType(env.pkg, "uuid.UUID")
		ln := Ite(nl, IntLit(0), st.blobLen(b))
		return &SliceV{Base: Ite(nl, IntLit(0), b), Off: IntLit(0), Len: ln, Cap: ln, Elem: t}, types.NewSlice(t), true
	case "astof":
		a, _ := st.elab(env, e.Args[0])
		t := st.resolveType("go.6river.tech/mmmbbb/filter", "*Condition")
		return App(SInt, st.declareFun("spec.ast_of", []Sort{SStr}, SInt), st.scalar(a)), t, true
	case "cb_unchanged":
		// cb_unchanged(table, builder): every ghost field of the create builder is as in the old state
		tn := e.Args[0].Name
		t := st.e.ent.Tables[tn]
		if t == nil {
			st.unsupported("cb_unchanged: unknown table %s", tn)
		}
		a, _ := st.elab(env, e.Args[1])
		r := st.scalar(a)
		var cs []*Term
		for _, c := range t.Cols {
			v1, s1 := st.cbVal(st.view(env), t, r, c.Name)
			v0, s0 := st.cbVal(env.old, t, r, c.Name)
			cs = append(cs, Eq(v1, v0), Eq(s1, s0))
		}
		return And(cs...), tBool, true
	case "rowindex":
		// rowindex(entities, id): position in a query result (slice of entities) of the entity whose row id is id
		a, _ := st.elab(env, e.Args[0])
		sv, ok := a.(*SliceV)
		if !ok {
			st.unsupported("rowindex needs a slice of entities")
		}
		pos, ok := st.ghostObj["pos:"+sv.Base.S].(*Term)
		if !ok {
			st.unsupported("rowindex: the slice is not the result of a query on this path")
		}
		b, _ := st.elab(env, e.Args[1])
		return Select(pos, st.scalar(b)), tInt, true
	case "cur":
		// cur(e) inside old(...): e is evaluated in the state outside the old (used for old(f(cur(x.y))))
		n := *env
		if env.inOld {
			n.cur = env.outer
			n.inOld = false
		}
		v, t := st.elab(&n, e.Args[0])
		return v, t, true
	case "runestart":
		a, _ := st.elab(env, e.Args[0])
		b, _ := st.elab(env, e.Args[1])
		return st.runeStart(st.scalar(a), st.scalar(b)), tBool, true
	case "runeat":
		a, _ := st.elab(env, e.Args[0])
		b, _ := st.elab(env, e.Args[1])
		return st.runeAt(st.scalar(a), st.scalar(b)), tInt, true
	case "isletter", "isdigit":
		a, _ := st.elab(env, e.Args[0])
		return App(SBool, st.declareFun("unicode_"+e.Name, []Sort{SInt}, SBool), st.scalar(a)), tBool, true
	case "quoted":
		a, _ := st.elab(env, e.Args[0])
		return st.strQuote(st.scalar(a)), tString, true
	case "b64":
		a, _ := st.elab(env, e.Args[0])
		sv, ok := a.(*SliceV)
		if !ok {
			st.unsupported("b64 needs a byte slice")
		}
		return st.b64(sv), tString, true
	case "timefmt":
		a, _ := st.elab(env, e.Args[0])
		b, _ := st.elab(env, e.Args[1])
		return App(SStr, st.declareFun("spec.time_format", []Sort{SInt, SStr}, SStr), st.scalar(a), st.scalar(b)), tString, true
	case "atoi":
		a, _ := st.elab(env, e.Args[0])
		return App(SInt, st.declareFun("spec.atoi", []Sort{SStr}, SInt), st.scalar(a)), tInt, true
	case "fresh_only":
		// fresh_only("E:uuid.UUID:", ...): in the arrays matching the patterns, every object that existed when the
		// unit was entered still holds what it held then (only objects allocated since may differ)
		var pats []string
		for _, a := range e.Args {
			if a.Kind != "str" {
				st.unsupported("fresh_only needs string literals")
			}
			pats = append(pats, a.Name)
		}
		var keys []string
		for k := range st.e.keySort {
			if matchKey(pats, k) && (strings.HasPrefix(k, "F|") || strings.HasPrefix(k, "B|") || strings.HasPrefix(k, "E|") || strings.HasPrefix(k, "MH|") || strings.HasPrefix(k, "MV|")) {
				keys = append(keys, k)
			}
		}
		sort.Strings(keys)
		var cs []*Term
		for _, k := range keys {
			ks := st.e.keySort[k]
			if i1, _ := ks.ArrayParts(); !ks.IsArray() || i1 != SInt {
				continue
			}
			cur := st.heapGet(st.view(env), k, ks, st.e.keyIsRef[k])
			pre := st.heapGet(st.pre, k, ks, st.e.keyIsRef[k])
			if cur.S == pre.S {
				continue
			}
			st.n++
			i := Const(fmt.Sprintf("i!b%d", st.n), SInt)
			cs = append(cs, Forall([]*Term{i}, Implies(And(Ge(i, IntLit(0)), Lt(i, Const("A0", SInt))), Eq(Select(cur, i), Select(pre, i))), Select(cur, i)))
		}
		return And(cs...), tBool, true
	case "durstr":
		a, _ := st.elab(env, e.Args[0])
		return st.durStr(st.scalar(a)), tString, true
	case "durparses":
		a, _ := st.elab(env, e.Args[0])
		st.durStr(IntLit(0))
		return App(SBool, "spec.dur_parses", st.scalar(a)), tBool, true
	case "rematch":
		a, _ := st.elab(env, e.Args[0])
		b, _ := st.elab(env, e.Args[1])
		return st.reMatches(st.scalar(a), st.scalar(b)), tBool, true
	case "asstring":
		a, _ := st.elab(env, e.Args[0])
		iv, ok := a.(*IfaceV)
		if !ok {
			st.unsupported("asstring of a non-interface value")
		}
		if cs, ok := iv.CVal.(*Term); ok && cs.Sort == SStr {
			return cs, tString, true
		}
		v := st.load(st.view(env), &AddrV{Kind: "box", Base: iv.Val, Key: "B|string", Type: tString})
		return st.scalar(v), tString, true
	case "uuidstr":
		a, _ := st.elab(env, e.Args[0])
		return st.uuidStr(st.scalar(a)), tString, true
	case "uuidparse":
		a, _ := st.elab(env, e.Args[0])
		return st.uuidParse(st.scalar(a)), tInt, true
	case "concat":
		a, _ := st.elab(env, e.Args[0])
		b, _ := st.elab(env, e.Args[1])
		return st.strConcat(st.scalar(a), st.scalar(b)), tString, true
	case "astime":
		a, _ := st.elab(env, e.Args[0])
		return st.tsOf(st.scalar(a)), tInt, true
	case "asduration":
		a, _ := st.elab(env, e.Args[0])
		p := st.scalar(a)
		return Ite(Eq(p, IntLit(0)), IntLit(0), st.durOf(p)), tInt, true
	case "parses":
		a, _ := st.elab(env, e.Args[0])
		return App(SBool, st.declareFun("spec.parses", []Sort{SStr}, SBool), st.scalar(a)), tBool, true
	case "isconstraint":
		a, _ := st.elab(env, e.Args[0])
		return st.errIs("constraint", st.scalar(a)), tBool, true
	case "isnotfound":
		a, _ := st.elab(env, e.Args[0])
		return st.errIs("notfound", st.scalar(a)), tBool, true
	case "errcode":
		a, _ := st.elab(env, e.Args[0])
		return st.errCode(st.scalar(a)), tInt, true
	case "events":
		// events("kind") = number of recorded events with that prefix on this path
		n := 0
		for _, ev := range st.events {
			if strings.HasPrefix(ev, e.Args[0].Name) {
				n++
			}
		}
		return IntLit(int64(n)), tInt, true
	}
	// table access: <table>.<column>(row), <table>.<column>$null(row), <table>.exists(row);
	// create-builder access: cb.<table>.<column>(builder), cb.<table>.<column>$set(builder)
	if st.e.ent != nil && strings.Contains(e.Name, ".") {
		parts := strings.Split(e.Name, ".")
		h := st.view(env)
		if len(parts) == 2 {
			if t := st.e.ent.Tables[parts[0]]; t != nil && len(e.Args) == 1 {
				a, _ := st.elab(env, e.Args[0])
				row := st.scalar(a)
				switch {
				case parts[1] == "exists":
					return st.rowLive(h, t, row), tBool, true
				case strings.HasSuffix(parts[1], "$null"):
					return st.colNull(h, t, strings.TrimSuffix(parts[1], "$null"), row), tBool, true
				default:
					c := t.ByName[parts[1]]
					if c == nil {
						st.unsupported("no column %s in table %s", parts[1], parts[0])
					}
					return st.colGet(h, t, parts[1], row), sortType(c.Sort), true
				}
			}
		}
		if len(parts) == 3 && parts[0] == "ub" {
			// ub.<table>.<col>$op(b) / ub.<table>.<col>(b): what update builder b carries for the column
			if t := st.e.ent.Tables[parts[1]]; t != nil && len(e.Args) == 1 {
				a, _ := st.elab(env, e.Args[0])
				eh, ok := a.(*EntH)
				if !ok {
					st.unsupported("ub.%s.%s: argument is not an update builder", parts[1], parts[2])
				}
				r := IntLit(int64(eh.ID))
				cn := strings.TrimSuffix(parts[2], "$op")
				c := t.ByName[cn]
				if c == nil {
					st.unsupported("no column %s in table %s", cn, parts[1])
				}
				if strings.HasSuffix(parts[2], "$op") {
					return Select(st.heapGet(h, ubOpKey(t, cn), ArrS(SInt, SInt), false), r), tInt, true
				}
				return Select(st.heapGet(h, ubKey(t, cn), ArrS(SInt, c.Sort), false), r), sortType(c.Sort), true
			}
		}
		if len(parts) == 3 && parts[0] == "cb" {
			if t := st.e.ent.Tables[parts[1]]; t != nil && len(e.Args) == 1 {
				a, _ := st.elab(env, e.Args[0])
				r := st.scalar(a)
				if strings.HasSuffix(parts[2], "$set") {
					_, set := st.cbVal(h, t, r, strings.TrimSuffix(parts[2], "$set"))
					return set, tBool, true
				}
				c := t.ByName[parts[2]]
				if c == nil {
					st.unsupported("no column %s in table %s", parts[2], parts[1])
				}
				v, _ := st.cbVal(h, t, r, parts[2])
				return v, sortType(c.Sort), true
			}
		}
	}
	return nil, nil, false
}

func sortType(s Sort) types.Type {
	switch s {
	case SBool:
		return tBool
	case SStr:
		return tString
	case SReal:
		return tReal
	}
	return tInt
}

// sortSlice: sort.Slice permutes the elements of the slice in place (the order produced is not modelled).
func (st *State) sortSlice(x SVal) SVal {
	iv, ok := x.(*IfaceV)
	if !ok || iv.Conc == nil {
		st.unsupported("sort.Slice of a value of unknown type")
	}
	sv, ok := iv.CVal.(*SliceV)
	if !ok {
		st.unsupported("sort.Slice of a non-slice")
	}
	delete(st.resultSlices, sv.Base.S)
	ls := st.e.leaves(sv.Elem)
	var memOld *Term
	if len(ls) == 1 {
		memOld = st.memberArr(st.heap, sv)
	}
	perm := st.fresh("perm", ArrS(SInt, SInt))
	pinv := st.fresh("perminv", ArrS(SInt, SInt))
	i := st.qv("i")
	inR := func(i *Term) *Term { return And(Ge(i, IntLit(0)), Lt(i, sv.Len)) }
	st.assume(Forall([]*Term{i}, Implies(inR(i), And(inR(Select(perm, i)), Eq(Select(pinv, Select(perm, i)), i))), Select(perm, i)))
	st.assume(Forall([]*Term{i}, Implies(inR(i), And(inR(Select(pinv, i)), Eq(Select(perm, Select(pinv, i)), i))), Select(pinv, i)))
	for _, l := range ls {
		key := "E|" + typeKey(sv.Elem) + "|" + l.Path
		s := ArrS(SInt, ArrS(SInt, l.Sort))
		arr := st.heapGet(st.heap, key, s, l.IsRef)
		old := Select(arr, sv.Base)
		inner := st.fresh("sorted", ArrS(SInt, l.Sort))
		j := st.qv("j")
		st.assume(Forall([]*Term{j}, Eq(Select(inner, j), Ite(And(Ge(j, sv.Off), Lt(j, Add(sv.Off, sv.Len))), Select(old, Add(sv.Off, Select(perm, Sub(j, sv.Off)))), Select(old, j))), Select(inner, j)))
		st.heapSetInner(key, arr, sv.Base, inner)
	}
	if memOld != nil {
		// a permutation has the same set of elements
		st.assume(Eq(st.memberArr(st.heap, sv), memOld))
	}
	return nil
}
