package main

import (
	"fmt"
	"go/types"
	"math/big"
	"reflect"
	"regexp"
	"strings"

	"golang.org/x/tools/go/ssa"
)

// ---------------------------------------------------------------------------
// Engine-side objects of the ent model

// EntH is a handle to an engine-side object (query builder, predicate, SQL
// selector, ...). Handles are values of pointer/func type in the Go program.
type EntH struct {
	Kind string // query update delete pred order sel stbl spred committer
	ID   int
}

type entSet struct {
	Col string
	Op  string // set setif clear add sym
	Val *Term
	OpT *Term // for sym: 0 untouched, 1 set, 2 cleared, 3 added
}

// Update builders are mirrored in ghost arrays indexed by the builder's handle id
//   UB|<table>|<col>$op   0 untouched, 1 set, 2 cleared, 3 added
//   UB|<table>|<col>      the value set / added
// so that loop invariants can talk about a builder that is filled in by a loop (update masks). While a
// builder has not crossed a loop cut the engine-side list Sets is authoritative and the arrays agree with it.
func ubKey(t *entTable, col string) string   { return "UB|" + t.Name + "|" + col }
func ubOpKey(t *entTable, col string) string { return "UB|" + t.Name + "|" + col + "$op" }

func (st *State) ubRecord(b *entBuilder, s entSet) {
	b.Sets = append(b.Sets, s)
	t := b.Table
	c := t.ByName[s.Col]
	if c == nil || b.Kind != "update" {
		return
	}
	r := IntLit(int64(b.ID))
	op := int64(1)
	switch s.Op {
	case "clear":
		op = 2
	case "add":
		op = 3
	}
	ok := ubOpKey(t, s.Col)
	st.heapSet(ok, Store(st.heapGet(st.heap, ok, ArrS(SInt, SInt), false), r, IntLit(op)))
	if s.Val != nil && s.Val.Sort == c.Sort {
		vk := ubKey(t, s.Col)
		st.heapSet(vk, Store(st.heapGet(st.heap, vk, ArrS(SInt, c.Sort), false), r, s.Val))
	}
}

// effSets: the assignments an update builder carries when it is executed.
func (st *State) effSets(b *entBuilder) []entSet {
	if !b.Sym {
		return b.Sets
	}
	t := b.Table
	r := IntLit(int64(b.ID))
	var out []entSet
	for _, c := range t.Cols {
		if c.Name == "id" {
			continue
		}
		op := Select(st.heapGet(st.heap, ubOpKey(t, c.Name), ArrS(SInt, SInt), false), r)
		val := Select(st.heapGet(st.heap, ubKey(t, c.Name), ArrS(SInt, c.Sort), false), r)
		out = append(out, entSet{Col: c.Name, Op: "sym", Val: val, OpT: op})
	}
	return out
}

// ubCount: whether the builder carries at least one assignment of kind op (1 set, 2 clear, 3 add).
func (st *State) ubAny(b *entBuilder, op int64) *Term {
	if !b.Sym {
		for _, s := range b.Sets {
			switch {
			case op == 1 && (s.Op == "set" || s.Op == "setif"), op == 2 && s.Op == "clear", op == 3 && s.Op == "add":
				return TTrue
			}
		}
		return TFalse
	}
	var ds []*Term
	for _, s := range st.effSets(b) {
		ds = append(ds, Eq(s.OpT, IntLit(op)))
	}
	return Or(ds...)
}

type entWith struct {
	Edge string
	Opts *FuncV
}

type entBuilder struct {
	Kind     string // query update delete
	Table    *entTable
	Preds    []SVal
	Sets     []entSet
	Sym      bool // Sets is stale (the builder crossed a loop cut that may have mutated it): read the UB arrays
	ID       int
	OneID    *Term
	Limit    *Term
	Order    []entOrder
	With     []entWith
	Select   []string
	Distinct bool
	Extra    map[string]sqlCol // AppendSelect aliases
}

type entOrder struct {
	Col  string
	Desc bool
}

type EntPred struct {
	Op    string // field and or not edge
	Table string
	Col   string
	Cmp   string // EQ NEQ GT GTE LT LTE IsNull NotNull In NotIn HasPrefix
	Arg   SVal
	Subs  []SVal
	Edge  string
}

type sqlCol struct{ Alias, Col string }

type sqlJoin struct {
	Left         bool
	Table, Alias string
	OnA, OnB     sqlCol
}

type sqlPred struct {
	Op   string // and or not cmp null notnull colcmp
	Cmp  string
	A, B sqlCol
	Val  SVal
	Subs []*sqlPred
}

type sqlSel struct {
	Root     string
	Joins    []sqlJoin
	Wheres   []*sqlPred
	Distinct bool
	Extra    map[string]sqlCol
}

type entWorld struct {
	next     int
	builders map[int]*entBuilder
	preds    map[int]*EntPred
	orders   map[int]*entOrder
	sels     map[int]*sqlSel
	stbls    map[int]*sqlJoin // table refs (Table, Alias)
	spreds   map[int]*sqlPred
	onCommit []*FuncV
	onRollbk []*FuncV
	stmts    int
}

func (w *entWorld) cloneObj() any {
	n := &entWorld{next: w.next, builders: map[int]*entBuilder{}, preds: map[int]*EntPred{}, orders: map[int]*entOrder{}, sels: map[int]*sqlSel{}, stbls: map[int]*sqlJoin{}, spreds: map[int]*sqlPred{}, stmts: w.stmts}
	for k, v := range w.builders {
		c := *v
		c.Preds = append([]SVal(nil), v.Preds...)
		c.Sets = append([]entSet(nil), v.Sets...)
		c.Order = append([]entOrder(nil), v.Order...)
		c.With = append([]entWith(nil), v.With...)
		c.Select = append([]string(nil), v.Select...)
		if v.Extra != nil {
			c.Extra = map[string]sqlCol{}
			for a, b := range v.Extra {
				c.Extra[a] = b
			}
		}
		n.builders[k] = &c
	}
	for k, v := range w.preds {
		n.preds[k] = v // immutable
	}
	for k, v := range w.orders {
		n.orders[k] = v
	}
	for k, v := range w.sels {
		c := *v
		c.Joins = append([]sqlJoin(nil), v.Joins...)
		c.Wheres = append([]*sqlPred(nil), v.Wheres...)
		if v.Extra != nil {
			c.Extra = map[string]sqlCol{}
			for a, b := range v.Extra {
				c.Extra[a] = b
			}
		}
		n.sels[k] = &c
	}
	for k, v := range w.stbls {
		n.stbls[k] = v
	}
	for k, v := range w.spreds {
		n.spreds[k] = v
	}
	n.onCommit = append([]*FuncV(nil), w.onCommit...)
	n.onRollbk = append([]*FuncV(nil), w.onRollbk...)
	return n
}

func (st *State) world() *entWorld {
	w, _ := st.ghostObj["ent"].(*entWorld)
	if w == nil {
		w = &entWorld{builders: map[int]*entBuilder{}, preds: map[int]*EntPred{}, orders: map[int]*entOrder{}, sels: map[int]*sqlSel{}, stbls: map[int]*sqlJoin{}, spreds: map[int]*sqlPred{}}
		st.ghostObj["ent"] = w
	}
	return w
}

func (w *entWorld) newID() int { w.next++; return w.next }

func (st *State) newBuilder(kind string, t *entTable) *EntH {
	w := st.world()
	id := w.newID()
	w.builders[id] = &entBuilder{Kind: kind, Table: t, ID: id}
	if kind == "update" {
		r := IntLit(int64(id))
		for _, c := range t.Cols {
			ok := ubOpKey(t, c.Name)
			st.heapSet(ok, Store(st.heapGet(st.heap, ok, ArrS(SInt, SInt), false), r, IntLit(0)))
		}
	}
	return &EntH{Kind: kind, ID: id}
}

func (st *State) builder(v SVal) *entBuilder {
	h, ok := v.(*EntH)
	if !ok {
		st.unsupported("ent: builder expected, got %T (a builder that crossed a loop cut or a havocked cell)", v)
	}
	b := st.world().builders[h.ID]
	if b == nil {
		st.unsupported("ent: unknown builder handle")
	}
	return b
}

func (st *State) newPred(p *EntPred) *EntH {
	w := st.world()
	id := w.newID()
	w.preds[id] = p
	return &EntH{Kind: "pred", ID: id}
}

// ---------------------------------------------------------------------------
// Dispatch of calls into generated ent code and ent's sql builder

var entRecvRe = regexp.MustCompile(`^\*?go\.6river\.tech/mmmbbb/ent\.([A-Z][a-z]+)(Client|Query|Update|UpdateOne|Create|CreateBulk|Delete|DeleteOne|Select|GroupBy)$`)

func (st *State) entCall(fr *Frame, in ssa.CallInstruction, callee *ssa.Function, args []SVal, k func(st *State, res SVal)) bool {
	e := st.e
	if e.ent == nil {
		return false
	}
	pkg := callee.Package()
	if pkg == nil {
		if o := callee.Origin(); o != nil {
			pkg = o.Package()
		}
	}
	if pkg == nil {
		return false
	}
	path := pkg.Pkg.Path()
	name := callee.Name()
	switch {
	case path == "entgo.io/ent/dialect/sql":
		if r, ok := st.sqlCall(fr, in, callee, args); ok {
			k(st, r)
			return true
		}
		return false
	case path == e.modPath+"/ent":
		recv := callee.Signature.Recv()
		// hand-written addons are ordinary code (except the transaction runners, below)
		if pos := callee.Pos(); pos.IsValid() && e.fset != nil {
			if strings.HasSuffix(e.fset.Position(pos).Filename, "-addons.go") {
				if !(recv != nil && typeKey(recv.Type()) == "*"+e.modPath+"/ent.Client" && strings.HasPrefix(name, "Do")) {
					return false
				}
			}
		}
		if recv == nil {
			switch name {
			case "Asc", "Desc":
				fields := st.stringSlice(args[0])
				if len(fields) != 1 {
					st.unsupported("ent.%s with %d fields", name, len(fields))
				}
				w := st.world()
				id := w.newID()
				w.orders[id] = &entOrder{Col: fields[0], Desc: name == "Desc"}
				k(st, &EntH{Kind: "order", ID: id})
				return true
			case "IsNotFound":
				k(st, st.errIs("notfound", st.scalar(args[0])))
				return true
			case "IsConstraintError":
				k(st, st.errIs("constraint", st.scalar(args[0])))
				return true
			case "IsNotSingular":
				k(st, st.errIs("notsingular", st.scalar(args[0])))
				return true
			}
			return false
		}
		rt := typeKey(recv.Type())
		if m := entRecvRe.FindStringSubmatch(rt); m != nil {
			t := e.ent.ByEntity[m[1]]
			if t == nil {
				return false
			}
			st.entMethod(fr, in, callee, t, m[2], name, args, k)
			return true
		}
		// transaction runners (hand-written in client-addons.go): idiom of DESIGN 2.3, used at call sites in
		// other units; DoTx itself is verified separately against its own contract
		if rt == "*"+e.modPath+"/ent.Client" && (name == "DoTx" || name == "DoCtxTx" || name == "DoCtxTxRetry") && st.u.fn != callee && !strings.HasPrefix(st.u.name, "ent.") {
			st.txRun(fr, in, callee, name, args, k)
			return true
		}
		// mutation introspection: number of set / cleared / added fields of the builder the mutation belongs to
		if strings.HasSuffix(rt, "Mutation") && strings.HasPrefix(rt, "*"+e.modPath+"/ent.") {
			if h, ok := args[0].(*EntH); ok && (name == "Fields" || name == "ClearedFields" || name == "AddedFields") {
				b := st.builder(h)
				op := map[string]int64{"Fields": 1, "ClearedFields": 2, "AddedFields": 3}[name]
				sv := st.freshVal("mutfields", callee.Signature.Results().At(0).Type()).(*SliceV)
				st.assume(Ge(sv.Len, IntLit(0)))
				st.assume(Eq(Gt(sv.Len, IntLit(0)), st.ubAny(b, op)))
				k(st, sv)
				return true
			}
		}
		// methods on entities and on Tx
		if rt == "*"+e.modPath+"/ent.Client" && name == "BeginTx" {
			// (tx, err): a fresh transaction, or an error and no transaction (ghost tx_begin_failed)
			r := st.allocRef()
			er := st.fresh("beginerr", SInt)
			st.assume(And(Ge(er, IntLit(0)), Lt(er, IntLit(900000000))))
			st.ghostSet("tx_begin_failed", nil, Neq(er, IntLit(0)))
			st.e.note(st.u.name, "intrinsic", "ent Client.BeginTx")
			k(st, &TupleV{[]SVal{Ite(Eq(er, IntLit(0)), r, IntLit(0)), er}})
			return true
		}
		if rt == "*"+e.modPath+"/ent.Tx" && (name == "Commit" || name == "Rollback") {
			er := st.fresh(strings.ToLower(name)+"err", SInt)
			st.assume(Ge(er, IntLit(0)))
			if name == "Commit" {
				st.ghostSet("tx_commit_tried", nil, TTrue)
				st.ghostSet("tx_commit_failed", nil, Neq(er, IntLit(0)))
			} else {
				st.ghostSet("tx_rollback_tried", nil, TTrue)
			}
			st.e.note(st.u.name, "intrinsic", "ent Tx."+name)
			k(st, er)
			return true
		}
		if rt == "*"+e.modPath+"/ent.Tx" {
			switch name {
			case "OnCommit":
				fv, ok := args[1].(*FuncV)
				if !ok || fv.Fn == nil {
					st.unsupported("tx.OnCommit with an unknown function value")
				}
				w := st.world()
				w.onCommit = append(w.onCommit, fv)
				st.analyzeCommitHook(fr, in, fv)
				k(st, nil)
				return true
			case "OnRollback":
				fv, _ := args[1].(*FuncV)
				w := st.world()
				w.onRollbk = append(w.onRollbk, fv)
				k(st, nil)
				return true
			}
			return false
		}
		if strings.HasPrefix(rt, "*"+e.modPath+"/ent.") {
			ent := strings.TrimPrefix(rt, "*"+e.modPath+"/ent.")
			if t := e.ent.ByEntity[ent]; t != nil {
				if strings.HasPrefix(name, "Query") && name != "Query" {
					// edge query rooted at an entity: e.QueryDeliveries()
					edge := strings.TrimPrefix(name, "Query")
					k(st, st.edgeQuery(t, edge, st.entityID(t, args[0])))
					return true
				}
				if name == "Update" {
					h := st.newBuilder("update", t)
					st.builder(h).OneID = st.entityID(t, args[0])
					k(st, h)
					return true
				}
				if name == "Unwrap" {
					k(st, args[0])
					return true
				}
			}
		}
		return false
	case strings.HasPrefix(path, e.modPath+"/ent/"):
		t := (*entTable)(nil)
		for _, tt := range e.ent.Tables {
			if tt.Pkg == path {
				t = tt
			}
		}
		if t == nil || callee.Signature.Recv() != nil {
			return false
		}
		switch {
		case strings.HasPrefix(name, "By") && len(name) > 2:
			col := t.ByFld[strings.TrimPrefix(name, "By")]
			if col == nil {
				return false
			}
			w := st.world()
			id := w.newID()
			w.orders[id] = &entOrder{Col: col.Name}
			k(st, &EntH{Kind: "order", ID: id})
			return true
		case strings.HasPrefix(name, "Has"):
			en := strings.TrimPrefix(name, "Has")
			var subs []SVal
			if strings.HasSuffix(en, "With") {
				en = strings.TrimSuffix(en, "With")
				subs = st.sliceElems(args[0], "predicates")
			}
			if t.Edges[en] == nil {
				return false
			}
			k(st, st.newPred(&EntPred{Op: "edge", Table: t.Name, Edge: en, Subs: subs}))
			return true
		case name == "Not":
			k(st, st.newPred(&EntPred{Op: "not", Table: t.Name, Subs: []SVal{args[0]}}))
			return true
		case name == "And" || name == "Or":
			k(st, st.newPred(&EntPred{Op: strings.ToLower(name), Table: t.Name, Subs: st.sliceElems(args[0], "predicates")}))
			return true
		}
		// field predicates: inline the generated body; sql.Field* intrinsics build the predicate
		return false
	}
	return false
}

func (st *State) errIs(kind string, e *Term) *Term {
	f := st.declareFun("err_is_"+kind, []Sort{SInt}, SBool)
	return And(Neq(e, IntLit(0)), App(SBool, f, e))
}

// stringSlice reads a variadic []string whose elements are literals.
func (st *State) stringSlice(v SVal) []string {
	var out []string
	for _, el := range st.sliceElems(v, "strings") {
		t, ok := el.(*Term)
		if !ok {
			st.unsupported("ent: string expected")
		}
		s, ok := t.Lit.(string)
		if !ok {
			st.unsupported("ent: column name is not a literal")
		}
		out = append(out, s)
	}
	return out
}

// sliceElems reads the elements of a slice of statically known length through
// the shadow memory.
func (st *State) sliceElems(v SVal, what string) []SVal {
	sv, ok := v.(*SliceV)
	if !ok {
		st.unsupported("ent: %s: slice expected, got %T", what, v)
	}
	n, ok := sv.Len.Lit.(*big.Int)
	if !ok {
		st.unsupported("ent: %s: slice of unknown length (built in a loop?)", what)
	}
	var out []SVal
	for i := int64(0); i < n.Int64(); i++ {
		a := &AddrV{Kind: "elem", Base: sv.Base, Idx: Add(sv.Off, IntLit(i)), Key: "E|" + typeKey(sv.Elem), Type: sv.Elem}
		out = append(out, st.load(st.heap, a))
	}
	return out
}

func (st *State) entityID(t *entTable, ent SVal) *Term {
	a := st.ptrAddr(ent, t.Named)
	idx, _ := findField(t.Struct, "ID")
	return st.scalar(st.load(st.heap, st.fieldAddr(a, idx)))
}

func (st *State) edgeQuery(t *entTable, edge string, id *Term) *EntH {
	ed := t.Edges[edge]
	if ed == nil {
		st.unsupported("ent: unknown edge %s.%s", t.Name, edge)
	}
	target := st.e.ent.Tables[ed.Target]
	h := st.newBuilder("query", target)
	b := st.builder(h)
	if ed.M2O {
		// neighbours of x through x's FK: rows y of target with y.id = fk(x): needs x's column value
		fk := st.colGet(st.heap, t, ed.FKCol, id)
		b.Preds = append(b.Preds, st.newPred(&EntPred{Op: "field", Table: target.Name, Col: "id", Cmp: "EQ", Arg: fk}))
	} else {
		b.Preds = append(b.Preds, st.newPred(&EntPred{Op: "field", Table: target.Name, Col: ed.FKCol, Cmp: "EQ", Arg: id}))
	}
	return h
}

// ---------------------------------------------------------------------------
// Table access

func (st *State) colArr(h *HeapView, t *entTable, col string) *Term {
	c := t.ByName[col]
	if c == nil {
		st.unsupported("ent: no column %s.%s", t.Name, col)
	}
	// columns holding JSON slices / maps hold references to their backing objects
	return st.heapGet(h, tblKey(t.Name, col), ArrS(SInt, c.Sort), c.Slice != nil || isMapCol(c))
}

func isMapCol(c *entCol) bool {
	vt := c.GoType
	if pt, ok := vt.Underlying().(*types.Pointer); ok {
		vt = pt.Elem()
	}
	_, ok := vt.Underlying().(*types.Map)
	return ok
}

func (st *State) colGet(h *HeapView, t *entTable, col string, row *Term) *Term {
	if col == "id" {
		return row // rows are keyed by their primary key
	}
	return Select(st.colArr(h, t, col), row)
}

// memberArr gives the characteristic array of the set of elements of a slice (in view h):
// membership tests become quantifier-free selects; the existential is skolemised once.
// memberOf: v is an element of the slice (in view h). Ground slices use the characteristic array;
// slices that depend on bound variables are expanded to an inline existential.
func (st *State) memberOf(h *HeapView, sv *SliceV, v *Term) *Term {
	dep := func(t *Term) bool { return strings.Contains(t.S, "!b") || strings.Contains(t.S, "!q") }
	if dep(sv.Base) || dep(sv.Len) || dep(sv.Off) {
		ls := st.e.leaves(sv.Elem)
		if len(ls) != 1 {
			st.unsupported("membership in a slice of non-scalar elements")
		}
		arr := st.heapGet(h, "E|"+typeKey(sv.Elem)+"|", ArrS(SInt, ArrS(SInt, ls[0].Sort)), ls[0].IsRef)
		i := st.qv("mi")
		return Exists([]*Term{i}, And(Ge(i, IntLit(0)), Lt(i, sv.Len), Eq(Select(Select(arr, sv.Base), Add(sv.Off, i)), v)))
	}
	return Select(st.memberArr(h, sv), v)
}

func (st *State) memberArr(h *HeapView, sv *SliceV) *Term {
	ls := st.e.leaves(sv.Elem)
	if len(ls) != 1 {
		st.unsupported("membership in a slice of non-scalar elements")
	}
	es := ls[0].Sort
	arr := st.heapGet(h, "E|"+typeKey(sv.Elem)+"|", ArrS(SInt, ArrS(SInt, es)), ls[0].IsRef)
	inner := st.innerArray(arr, sv.Base)
	key := "mem:" + inner.S + "|" + sv.Off.S + "|" + sv.Len.S
	if m, ok := st.ghostObj[key].(*Term); ok {
		return m
	}
	m := st.fresh("member", ArrS(es, SBool))
	el := func(i *Term) *Term { return Select(inner, Add(sv.Off, i)) }
	if n, ok := sv.Len.Lit.(*big.Int); ok && n.Int64() <= 6 {
		// short slice of known length: membership is a finite disjunction
		st.n++
		v := Const(fmt.Sprintf("v!q%d", st.n), es)
		var ds []*Term
		for j := int64(0); j < n.Int64(); j++ {
			ds = append(ds, Eq(v, el(IntLit(j))))
		}
		st.assume(Forall([]*Term{v}, Eq(Select(m, v), Or(ds...)), Select(m, v)))
		for j := int64(0); j < n.Int64(); j++ {
			st.assume(Select(m, el(IntLit(j))))
		}
		st.ghostObj[key] = m
		return m
	}
	w := st.fresh("memwit", ArrS(es, SInt))
	i := st.qv("i")
	st.assume(Forall([]*Term{i}, Implies(And(Ge(i, IntLit(0)), Lt(i, sv.Len)), Select(m, el(i))), el(i)))
	st.n++
	v := Const(fmt.Sprintf("v!q%d", st.n), es)
	st.assume(Forall([]*Term{v}, Implies(Select(m, v), And(Ge(Select(w, v), IntLit(0)), Lt(Select(w, v), sv.Len), Eq(el(Select(w, v)), v))), Select(m, v)))
	st.ghostObj[key] = m
	return m
}

func (st *State) colNull(h *HeapView, t *entTable, col string, row *Term) *Term {
	c := t.ByName[col]
	if c == nil {
		st.unsupported("ent: no column %s.%s", t.Name, col)
	}
	if !c.Nullable {
		return TFalse
	}
	return Select(st.heapGet(h, tblNull(t.Name, col), ArrS(SInt, SBool), false), row)
}

func (st *State) rowLive(h *HeapView, t *entTable, row *Term) *Term {
	return Select(st.heapGet(h, tblLive(t.Name), ArrS(SInt, SBool), false), row)
}

// tv is a three-valued truth value (SQL): T = definitely true, F = definitely false.
type tv struct{ T, F *Term }

func tvOf(b *Term) tv { return tv{b, Not(b)} }

func tvAnd(xs []tv) tv {
	var ts, fs []*Term
	for _, x := range xs {
		ts = append(ts, x.T)
		fs = append(fs, x.F)
	}
	return tv{And(ts...), Or(fs...)}
}

func tvOr(xs []tv) tv {
	var ts, fs []*Term
	for _, x := range xs {
		ts = append(ts, x.T)
		fs = append(fs, x.F)
	}
	return tv{Or(ts...), And(fs...)}
}

func (st *State) cmpTerms(cmp string, a, b *Term) *Term {
	if a.Sort != b.Sort {
		st.unsupported("ent: comparison between %s and %s", a.Sort, b.Sort)
	}
	switch cmp {
	case "EQ":
		return Eq(a, b)
	case "NEQ":
		return Neq(a, b)
	case "GT":
		return Gt(a, b)
	case "GTE":
		return Ge(a, b)
	case "LT":
		return Lt(a, b)
	case "LTE":
		return Le(a, b)
	case "HasPrefix":
		return st.strPrefix(a, b)
	}
	st.unsupported("ent: comparison %s", cmp)
	return nil
}

// argTerm converts a predicate argument (possibly boxed in an interface) to a column-sorted term.
func (st *State) argTerm(v SVal, want Sort) *Term {
	switch x := v.(type) {
	case *IfaceV:
		if x.CVal != nil {
			return st.argTerm(x.CVal, want)
		}
		if want == SInt {
			return x.Val
		}
		st.unsupported("ent: predicate argument of unknown dynamic type")
	case *Term:
		if x.Sort == want {
			return x
		}
		if want == SReal && x.Sort == SInt {
			return ToReal(x)
		}
		st.unsupported("ent: predicate argument has sort %s, column has %s", x.Sort, want)
	}
	return st.scalar(v)
}

// predTV evaluates an ent predicate on row x of table t in heap view h.
func (st *State) predTV(h *HeapView, t *entTable, p SVal, x *Term) tv {
	switch pv := p.(type) {
	case *EntH:
		if pv.Kind != "pred" {
			st.unsupported("ent: %s used as a predicate", pv.Kind)
		}
		ep := st.world().preds[pv.ID]
		switch ep.Op {
		case "field":
			c := t.ByName[ep.Col]
			if c == nil {
				st.unsupported("ent: predicate on unknown column %s.%s", t.Name, ep.Col)
			}
			null := st.colNull(h, t, ep.Col, x)
			val := st.colGet(h, t, ep.Col, x)
			switch ep.Cmp {
			case "IsNull":
				return tvOf(null)
			case "NotNull":
				return tvOf(Not(null))
			case "In", "NotIn":
				sv, ok := ep.Arg.(*SliceV)
				if !ok {
					st.unsupported("ent: In() argument is not a slice")
				}
				var member *Term
				if n, ok := sv.Len.Lit.(*big.Int); ok && n.Int64() <= 4 {
					var ds []*Term
					for _, el := range st.sliceElems(sv, "In arguments") {
						ds = append(ds, Eq(val, st.argTerm(el, c.Sort)))
					}
					member = Or(ds...)
				} else {
					member = st.memberOf(h, sv, val)
				}
				if ep.Cmp == "In" {
					return tv{And(Not(null), member), Or(null, Not(member))} // NULL IN (...) is unknown -> not selected; treated as false for NOT too (documented)
				}
				return tv{And(Not(null), Not(member)), Or(null, member)}
			default:
				arg := st.argTerm(ep.Arg, c.Sort)
				cmp := st.cmpTerms(ep.Cmp, val, arg)
				return tv{And(Not(null), cmp), And(Not(null), Not(cmp))}
			}
		case "and":
			var xs []tv
			for _, s := range ep.Subs {
				xs = append(xs, st.predTV(h, t, s, x))
			}
			return tvAnd(xs)
		case "or":
			var xs []tv
			for _, s := range ep.Subs {
				xs = append(xs, st.predTV(h, t, s, x))
			}
			return tvOr(xs)
		case "not":
			r := st.predTV(h, t, ep.Subs[0], x)
			return tv{r.F, r.T}
		case "edge":
			ed := t.Edges[ep.Edge]
			target := st.e.ent.Tables[ed.Target]
			if ed.M2O {
				y := st.colGet(h, t, ed.FKCol, x)
				conds := []tv{tvOf(And(Not(st.colNull(h, t, ed.FKCol, x)), st.rowLive(h, target, y)))}
				for _, s := range ep.Subs {
					conds = append(conds, st.predTV(h, target, s, y))
				}
				r := tvAnd(conds)
				return tv{r.T, Not(r.T)} // EXISTS is two-valued
			}
			st.n++
			y := Const(fmt.Sprintf("nb!y%d", st.n), SInt)
			conds := []tv{tvOf(And(st.rowLive(h, target, y), Not(st.colNull(h, target, ed.FKCol, y)), Eq(st.colGet(h, target, ed.FKCol, y), x)))}
			for _, s := range ep.Subs {
				conds = append(conds, st.predTV(h, target, s, y))
			}
			ex := Exists([]*Term{y}, tvAnd(conds).T)
			return tv{ex, Not(ex)}
		}
		st.unsupported("ent: predicate op %s", ep.Op)
	case *FuncV:
		return st.customPredTV(h, t, pv, x)
	}
	st.unsupported("ent: predicate value %T (lost through a havocked cell?)", p)
	return tv{}
}

// where gives the selection formula (definitely-true) of a list of predicates.
func (st *State) where(h *HeapView, t *entTable, preds []SVal, x *Term) *Term {
	cs := []*Term{st.rowLive(h, t, x)}
	for _, p := range preds {
		cs = append(cs, st.predTV(h, t, p, x).T)
	}
	return And(cs...)
}

// ---------------------------------------------------------------------------
// Custom selector predicates: func(*sql.Selector)

func (st *State) runSelector(t *entTable, fv *FuncV) *sqlSel {
	if fv.Fn == nil {
		st.unsupported("ent: custom predicate is an unknown function value")
	}
	w := st.world()
	id := w.newID()
	w.sels[id] = &sqlSel{Root: t.Name}
	st.callSync(fv, []SVal{&EntH{Kind: "sel", ID: id}})
	return st.world().sels[id]
}

// callSync runs a function value to completion on the current path. The body
// must not fork (closures passed to ent are straight-line code).
func (st *State) callSync(fv *FuncV, args []SVal) SVal {
	done := 0
	var result SVal
	fr := st.frames[len(st.frames)-1]
	depth := len(st.frames)
	st.inline(fr, nil, fv.Fn, fv.Bindings, args, func(st2 *State, res SVal) {
		if st2 != st {
			st.unsupported("ent: a callback forked the path")
		}
		done++
		result = res
	})
	if done != 1 || len(st.frames) != depth {
		st.unsupported("ent: a callback did not complete exactly once (%d)", done)
	}
	return result
}

type joinRow struct {
	tbl    *entTable
	row    *Term
	isNull *Term // the NULL-extended row of a left join
}

func (st *State) sqlColTV(h *HeapView, rows map[string]joinRow, c sqlCol) (val *Term, null *Term) {
	r, ok := rows[c.Alias]
	if !ok {
		st.unsupported("ent: unknown table alias %q in custom predicate", c.Alias)
	}
	return st.colGet(h, r.tbl, c.Col, r.row), Or(r.isNull, st.colNull(h, r.tbl, c.Col, r.row))
}

func (st *State) sqlPredTV(h *HeapView, rows map[string]joinRow, p *sqlPred) tv {
	switch p.Op {
	case "and", "or":
		var xs []tv
		for _, s := range p.Subs {
			xs = append(xs, st.sqlPredTV(h, rows, s))
		}
		if p.Op == "and" {
			return tvAnd(xs)
		}
		return tvOr(xs)
	case "not":
		r := st.sqlPredTV(h, rows, p.Subs[0])
		return tv{r.F, r.T}
	case "null":
		_, n := st.sqlColTV(h, rows, p.A)
		return tvOf(n)
	case "notnull":
		_, n := st.sqlColTV(h, rows, p.A)
		return tvOf(Not(n))
	case "cmp":
		v, n := st.sqlColTV(h, rows, p.A)
		arg := st.argTerm(p.Val, v.Sort)
		c := st.cmpTerms(p.Cmp, v, arg)
		return tv{And(Not(n), c), And(Not(n), Not(c))}
	case "colcmp":
		v1, n1 := st.sqlColTV(h, rows, p.A)
		v2, n2 := st.sqlColTV(h, rows, p.B)
		c := st.cmpTerms(p.Cmp, v1, v2)
		nn := And(Not(n1), Not(n2))
		return tv{And(nn, c), And(nn, Not(c))}
	}
	st.unsupported("ent: sql predicate %s", p.Op)
	return tv{}
}

// customPredTV: meaning of a hand-written func(*sql.Selector) predicate for root row x.
func (st *State) customPredTV(h *HeapView, t *entTable, fv *FuncV, x *Term) tv {
	sel := st.runSelector(t, fv)
	if len(sel.Joins) == 0 && len(sel.Wheres) == 0 {
		return tvOf(TTrue) // e.g. s.Distinct()
	}
	rows := map[string]joinRow{t.Name: {t, x, TFalse}}
	var exVars []*Term
	var conds []*Term
	for _, j := range sel.Joins {
		jt := st.e.ent.Tables[j.Table]
		if jt == nil {
			st.unsupported("ent: join with unknown table %s", j.Table)
		}
		// orient the ON clause: a = column of an already bound alias, b = column of the joined table
		a, b := j.OnA, j.OnB
		if a.Alias == j.Alias {
			a, b = b, a
		}
		if b.Alias != j.Alias {
			st.unsupported("ent: ON clause does not mention the joined table")
		}
		av, an := st.sqlColTV(h, rows, a)
		if b.Col == "id" {
			// FK -> PK: the partner row is determined
			y := av
			match := And(Not(an), st.rowLive(h, jt, y))
			if j.Left {
				rows[j.Alias] = joinRow{jt, y, Not(match)}
			} else {
				rows[j.Alias] = joinRow{jt, y, TFalse}
				conds = append(conds, match)
			}
		} else {
			// PK -> FK (or general equi-join): existential partner
			st.n++
			y := Const(fmt.Sprintf("join!y%d", st.n), SInt)
			bv := st.colGet(h, jt, b.Col, y)
			bn := st.colNull(h, jt, b.Col, y)
			match := And(st.rowLive(h, jt, y), Not(an), Not(bn), Eq(bv, av))
			if j.Left {
				// either a matching partner, or no partner exists and the row is NULL-extended
				st.n++
				nf := Const(fmt.Sprintf("join!n%d", st.n), SBool)
				st.n++
				y2 := Const(fmt.Sprintf("join!z%d", st.n), SInt)
				bv2 := st.colGet(h, jt, b.Col, y2)
				bn2 := st.colNull(h, jt, b.Col, y2)
				none := Not(Exists([]*Term{y2}, And(st.rowLive(h, jt, y2), Not(an), Not(bn2), Eq(bv2, av))))
				exVars = append(exVars, y, nf)
				rows[j.Alias] = joinRow{jt, y, nf}
				conds = append(conds, Or(And(Not(nf), match), And(nf, none)))
			} else {
				exVars = append(exVars, y)
				rows[j.Alias] = joinRow{jt, y, TFalse}
				conds = append(conds, match)
			}
		}
	}
	for _, wp := range sel.Wheres {
		conds = append(conds, st.sqlPredTV(h, rows, wp).T)
	}
	body := And(conds...)
	if len(exVars) > 0 {
		body = Exists(exVars, body)
	}
	return tv{body, Not(body)}
}

// sqlCall: the part of entgo.io/ent/dialect/sql used by the repository.
func (st *State) sqlCall(fr *Frame, in ssa.CallInstruction, callee *ssa.Function, args []SVal) (SVal, bool) {
	w := st.world()
	name := callee.Name()
	recv := ""
	if r := callee.Signature.Recv(); r != nil {
		recv = typeShort(r.Type())
	}
	colOf := func(v SVal) sqlCol {
		t, ok := v.(*Term)
		if ok {
			if s, ok := t.Lit.(string); ok && strings.HasPrefix(s, "\x00col\x00") {
				parts := strings.Split(s, "\x00")
				return sqlCol{parts[2], parts[3]}
			}
		}
		st.unsupported("ent: column reference expected in sql builder call %s", name)
		return sqlCol{}
	}
	mkCol := func(alias, col string) *Term { return st.strLit("\x00col\x00" + alias + "\x00" + col) }
	litStr := func(v SVal) string {
		if t, ok := v.(*Term); ok {
			if s, ok := t.Lit.(string); ok {
				return s
			}
		}
		st.unsupported("ent: literal string expected in sql builder call %s", name)
		return ""
	}
	newSP := func(p *sqlPred) *EntH {
		id := w.newID()
		w.spreds[id] = p
		return &EntH{Kind: "spred", ID: id}
	}
	getSP := func(v SVal) *sqlPred {
		h, ok := v.(*EntH)
		if !ok || h.Kind != "spred" {
			st.unsupported("ent: sql predicate expected")
		}
		return w.spreds[h.ID]
	}
	subsOf := func(v SVal) []*sqlPred {
		var out []*sqlPred
		for _, el := range st.sliceElems(v, "sql predicates") {
			out = append(out, getSP(el))
		}
		return out
	}
	if recv == "" {
		// generic field predicates used by the generated where.go files: FieldEQ(name, v) ...
		if strings.HasPrefix(name, "Field") {
			base := name
			if i := strings.Index(base, "["); i >= 0 {
				base = base[:i]
			}
			cmp := strings.TrimPrefix(base, "Field")
			col := litStr(args[0])
			p := &EntPred{Op: "field", Col: col, Cmp: cmp}
			if len(args) > 1 {
				p.Arg = args[1]
			}
			switch cmp {
			case "EQ", "NEQ", "GT", "GTE", "LT", "LTE", "In", "NotIn", "IsNull", "NotNull", "HasPrefix":
				return st.newPred(p), true
			}
			st.unsupported("ent: field predicate %s is not modelled", name)
		}
		switch name {
		case "AndPredicates", "OrPredicates":
			return st.newPred(&EntPred{Op: strings.ToLower(strings.TrimSuffix(name, "Predicates")), Subs: st.sliceElems(args[0], "predicates")}), true
		case "NotPredicates":
			return st.newPred(&EntPred{Op: "not", Subs: []SVal{args[0]}}), true
		case "Table":
			id := w.newID()
			tn := litStr(args[0])
			w.stbls[id] = &sqlJoin{Table: tn, Alias: tn}
			return &EntH{Kind: "stbl", ID: id}, true
		case "And", "Or":
			return newSP(&sqlPred{Op: strings.ToLower(name), Subs: subsOf(args[0])}), true
		case "Not":
			return newSP(&sqlPred{Op: "not", Subs: []*sqlPred{getSP(args[0])}}), true
		case "EQ", "NEQ", "GT", "GTE", "LT", "LTE":
			return newSP(&sqlPred{Op: "cmp", Cmp: name, A: colOf(args[0]), Val: args[1]}), true
		case "IsNull":
			return newSP(&sqlPred{Op: "null", A: colOf(args[0])}), true
		case "NotNull":
			return newSP(&sqlPred{Op: "notnull", A: colOf(args[0])}), true
		case "ColumnsEQ", "ColumnsNEQ", "ColumnsGT", "ColumnsGTE", "ColumnsLT", "ColumnsLTE":
			return newSP(&sqlPred{Op: "colcmp", Cmp: strings.TrimPrefix(name, "Columns"), A: colOf(args[0]), B: colOf(args[1])}), true
		case "As":
			c := colOf(args[0])
			return st.strLit("\x00as\x00" + c.Alias + "\x00" + c.Col + "\x00" + litStr(args[1])), true
		case "WithLockTables", "WithLockAction":
			return &FuncV{Sym: IntLit(0)}, true
		}
		return nil, false
	}
	switch recv {
	case "*SelectTable":
		h := args[0].(*EntH)
		tb := w.stbls[h.ID]
		switch name {
		case "As":
			id := w.newID()
			w.stbls[id] = &sqlJoin{Table: tb.Table, Alias: litStr(args[1])}
			return &EntH{Kind: "stbl", ID: id}, true
		case "C":
			return mkCol(tb.Alias, litStr(args[1])), true
		}
	case "*Selector":
		h, ok := args[0].(*EntH)
		if !ok || h.Kind != "sel" {
			st.unsupported("ent: selector method on unknown selector")
		}
		sel := w.sels[h.ID]
		switch name {
		case "C":
			return mkCol(sel.Root, litStr(args[1])), true
		case "Distinct":
			sel.Distinct = true
			return h, true
		case "Join", "LeftJoin":
			targ := args[1]
			if iv, isI := targ.(*IfaceV); isI && iv.CVal != nil {
				targ = iv.CVal
			}
			th, ok := targ.(*EntH)
			if !ok || th.Kind != "stbl" {
				st.unsupported("ent: Join of a non-table")
			}
			tb := w.stbls[th.ID]
			sel.Joins = append(sel.Joins, sqlJoin{Left: name == "LeftJoin", Table: tb.Table, Alias: tb.Alias})
			return h, true
		case "On":
			if len(sel.Joins) == 0 {
				st.unsupported("ent: On without Join")
			}
			j := &sel.Joins[len(sel.Joins)-1]
			j.OnA, j.OnB = colOf(args[1]), colOf(args[2])
			return h, true
		case "Where":
			sel.Wheres = append(sel.Wheres, getSP(args[1]))
			return h, true
		case "AppendSelect":
			for _, el := range st.sliceElems(args[1], "select columns") {
				t := el.(*Term)
				s, _ := t.Lit.(string)
				if strings.HasPrefix(s, "\x00as\x00") {
					parts := strings.Split(s, "\x00")
					if sel.Extra == nil {
						sel.Extra = map[string]sqlCol{}
					}
					sel.Extra[parts[4]] = sqlCol{parts[2], parts[3]}
				} else {
					st.unsupported("ent: AppendSelect of an unaliased column")
				}
			}
			return h, true
		}
	}
	return nil, false
}

// ---------------------------------------------------------------------------
// Builder methods

var _ = reflect.TypeOf

func (st *State) entMethod(fr *Frame, in ssa.CallInstruction, callee *ssa.Function, t *entTable, kind, name string, args []SVal, k func(st *State, res SVal)) {
	recv := args[0]
	switch kind {
	case "Client":
		switch name {
		case "Query":
			k(st, st.newBuilder("query", t))
		case "Update":
			k(st, st.newBuilder("update", t))
		case "UpdateOne":
			h := st.newBuilder("update", t)
			st.builder(h).OneID = st.entityID(t, args[1])
			k(st, h)
		case "UpdateOneID":
			h := st.newBuilder("update", t)
			st.builder(h).OneID = st.scalar(args[1])
			k(st, h)
		case "Delete":
			k(st, st.newBuilder("delete", t))
		case "DeleteOne":
			h := st.newBuilder("delete", t)
			st.builder(h).OneID = st.entityID(t, args[1])
			k(st, h)
		case "DeleteOneID":
			h := st.newBuilder("delete", t)
			st.builder(h).OneID = st.scalar(args[1])
			k(st, h)
		case "Create":
			k(st, st.newCreate(t))
		case "CreateBulk":
			k(st, &bulkV{Table: t, Items: args[1].(*SliceV)})
		case "Get":
			h := st.newBuilder("query", t)
			st.builder(h).OneID = st.scalar(args[2])
			st.entTerminal(fr, in, callee, h, "Only", args, k)
		default:
			if strings.HasPrefix(name, "Query") {
				edge := strings.TrimPrefix(name, "Query")
				k(st, st.edgeQuery(t, edge, st.entityID(t, args[1])))
				return
			}
			st.unsupported("ent: %sClient.%s is not modelled", t.Entity, name)
		}
		return
	case "Create":
		st.createMethod(fr, in, callee, t, name, args, k)
		return
	case "CreateBulk":
		st.bulkMethod(fr, in, callee, t, name, args, k)
		return
	}
	b := st.builder(recv)
	switch {
	case name == "Where":
		b.Preds = append(b.Preds, st.sliceElems(args[1], "predicates")...)
		k(st, recv)
	case name == "Limit":
		b.Limit = st.scalar(args[1])
		k(st, recv)
	case name == "Order":
		for _, o := range st.sliceElems(args[1], "order options") {
			h, ok := o.(*EntH)
			if !ok || h.Kind != "order" {
				st.unsupported("ent: unknown order option")
			}
			b.Order = append(b.Order, *st.world().orders[h.ID])
		}
		k(st, recv)
	case name == "ForUpdate" || name == "ForShare" || name == "Unique" || name == "Modify":
		k(st, recv)
	case name == "Select":
		b.Select = st.stringSlice(args[1])
		k(st, recv)
	case strings.HasPrefix(name, "With") && kind == "Query":
		w := entWith{Edge: strings.TrimPrefix(name, "With")}
		if len(args) > 1 {
			for _, o := range st.sliceElems(args[1], "eager-load options") {
				if fv, ok := o.(*FuncV); ok && fv.Fn != nil {
					w.Opts = fv
				}
			}
		}
		b.With = append(b.With, w)
		k(st, recv)
	case strings.HasPrefix(name, "SetNillable"):
		col := t.ByFld[strings.TrimPrefix(name, "SetNillable")]
		if col == nil {
			st.unsupported("ent: %s on unknown field", name)
		}
		p := st.scalar(args[1])
		vt := col.GoType
		if pt, ok := vt.Underlying().(*types.Pointer); ok {
			vt = pt.Elem()
		}
		val := st.colValueOf(col, st.load(st.heap, st.ptrAddr(p, vt)))
		st.e.notes = append(st.e.notes, "SetNillable treated as conditional set")
		// conditional set: value if pointer non-nil else keep
		st.ubRecord(b, entSet{Col: col.Name, Op: "setif", Val: Ite(Neq(p, IntLit(0)), val, val)})
		_ = p
		k(st, recv)
	case strings.HasPrefix(name, "Set"):
		fname := strings.TrimPrefix(name, "Set")
		col := t.ByFld[fname]
		if col == nil {
			// edge setters: SetSubscription(s) == SetSubscriptionID(s.ID)
			if ed := t.Edges[fname]; ed != nil && ed.M2O {
				target := st.e.ent.Tables[ed.Target]
				st.ubRecord(b, entSet{Col: ed.FKCol, Op: "set", Val: st.entityID(target, args[1])})
				k(st, recv)
				return
			}
			st.unsupported("ent: %s on unknown field", name)
		}
		st.ubRecord(b, entSet{Col: col.Name, Op: "set", Val: st.setterValue(col, callee, args[1])})
		k(st, recv)
	case strings.HasPrefix(name, "Clear"):
		fname := strings.TrimPrefix(name, "Clear")
		col := t.ByFld[fname]
		if col == nil {
			if ed := t.Edges[fname]; ed != nil && ed.M2O {
				st.ubRecord(b, entSet{Col: ed.FKCol, Op: "clear"})
				k(st, recv)
				return
			}
			st.unsupported("ent: %s on unknown field", name)
		}
		st.ubRecord(b, entSet{Col: col.Name, Op: "clear"})
		k(st, recv)
	case strings.HasPrefix(name, "Add") && kind != "Query":
		col := t.ByFld[strings.TrimPrefix(name, "Add")]
		if col == nil {
			st.unsupported("ent: %s on unknown field", name)
		}
		st.ubRecord(b, entSet{Col: col.Name, Op: "add", Val: st.scalar(args[1])})
		k(st, recv)
	case name == "Mutation":
		k(st, recv)
	default:
		st.entTerminal(fr, in, callee, recv.(*EntH), name, args, k)
	}
}

// setterValue: the column value a generated SetX(v) stores; fields declared with a pointer GoType
// (e.g. *sqltypes.Interval) take the pointer and store the pointee.
func (st *State) setterValue(col *entCol, callee *ssa.Function, arg SVal) *Term {
	if len(callee.Params) >= 2 {
		if pt, ok := callee.Params[1].Type().Underlying().(*types.Pointer); ok {
			if _, isStruct := pt.Elem().Underlying().(*types.Struct); !isStruct || isOpaque(pt.Elem()) {
				return st.colValueOf(col, st.load(st.heap, st.ptrAddr(arg, pt.Elem())))
			}
		}
	}
	return st.colValueOf(col, arg)
}

// colValueOf converts a Go value of a column's field type to the column's SMT value.
func (st *State) colValueOf(col *entCol, v SVal) *Term {
	switch x := v.(type) {
	case *SliceV:
		// JSON slice / bytes column: identified by its backing array; length recorded
		st.assume(Eq(st.blobLen(x.Base), x.Len))
		if !isLitZero(x.Off) {
			st.unsupported("ent: offset slice stored in a column")
		}
		return x.Base
	case *Term:
		return x
	}
	return st.scalar(v)
}

func (st *State) blobLen(base *Term) *Term {
	f := st.declareFun("blob_len", []Sort{SInt}, SInt)
	return App(SInt, f, base)
}

// ---------------------------------------------------------------------------
// On-commit hooks (C09 / C10)
//
// tx.OnCommit(f) registers f: func(Committer) Committer. The hook is analysed at registration time by
// running the committer it builds twice on copies of the current state:
//   * the wrapped commit fails with error e: the hook must return exactly e and must not request any
//     wake-up (obligations of kind "hook");
//   * the wrapped commit succeeds: the hook must return nil; the subscriptions it wakes
//     (ghost wake_requested, set by the contract of WakePublishListeners) are added to the ghost set
//     wake_on_commit of the current state.
const commitErrLit = 770077

func (st *State) analyzeCommitHook(fr *Frame, in ssa.CallInstruction, hook *FuncV) {
	u := st.u
	site := st.siteName(fr, in, "hook")
	if !fr.isUnit {
		site = fr.fn.Name() + "/" + site
	}
	run := func(commitResult int64, done func(st2 *State, res SVal)) int {
		st2 := st.clone()
		st2.ghostObj["commitResult"] = IntLit(commitResult)
		// start from "nothing requested" so that the hook's own requests can be read off afterwards
		st2.heapSet(st2.ghostKey("wake_requested"), App(ArrS(SInt, SBool), "(as const (Array Int Bool))", TFalse))
		fr2 := st2.frames[len(st2.frames)-1]
		n := 0
		committer := &IfaceV{Tag: IntLit(int64(st2.e.typeID("ent.committer"))), Val: IntLit(1), CVal: &EntH{Kind: "committer"}}
		st2.inline(fr2, nil, hook.Fn, hook.Bindings, []SVal{committer}, func(st3 *State, wrapped SVal) {
			iv, ok := wrapped.(*IfaceV)
			if !ok {
				st3.unsupported("commit hook does not return a Committer")
			}
			g, ok := iv.CVal.(*FuncV)
			if !ok || g.Fn == nil {
				st3.unsupported("commit hook returns an unknown Committer")
			}
			fr3 := st3.frames[len(st3.frames)-1]
			ctx := st3.freshVal("hookctx", g.Fn.Params[0].Type())
			txv := st3.freshVal("hooktx", g.Fn.Params[1].Type())
			st3.inline(fr3, nil, g.Fn, g.Bindings, []SVal{ctx, txv}, func(st4 *State, res SVal) {
				n++
				done(st4, res)
			})
		})
		return n
	}
	wakeKey := st.ghostKey("wake_requested")
	wakeSort := ArrS(SInt, SBool)
	props := mergeProps(u.c.Props, []string{"C09"})
	// failure mode
	emptySet := App(ArrS(SInt, SBool), "(as const (Array Int Bool))", TFalse)
	run(commitErrLit, func(st4 *State, res SVal) {
		before := emptySet
		after := st4.heapGet(st4.heap, wakeKey, wakeSort, false)
		st4.beginBatch()
		st4.e.addObligation(st4, u, "hook", "returns-commit-error", site, Eq(st4.scalar(res), IntLit(commitErrLit)), props, "an on-commit hook returns the error of the commit it wraps", false)
		st4.e.addObligation(st4, u, "hook", "no-wake-without-commit", site, Eq(after, before), props, "no waiter is woken when the commit failed", false)
		st4.endBatch()
	})
	// success mode
	var final *State
	paths := run(0, func(st4 *State, res SVal) {
		st4.e.addObligation(st4, u, "hook", "returns-nil-after-commit", site, Eq(st4.scalar(res), IntLit(0)), props, "an on-commit hook returns nil when the commit succeeded", false)
		final = st4
	})
	if paths == 0 {
		return
	}
	after := final.heapGet(final.heap, wakeKey, wakeSort, false)
	if final.nver[wakeKey] == st.nver[wakeKey]+1 && len(final.havocLog) == len(st.havocLog) {
		return // the hook wakes nobody (only the initial reset touched the ghost)
	}
	if paths != 1 {
		st.unsupported("an on-commit hook that wakes subscribers has several paths")
	}
	// import the success path's declarations and facts, keep the current heap, and add the woken
	// subscriptions to wake_on_commit
	heap, pre, labels := st.heap, st.pre, st.labels
	frames := st.frames
	ghost := st.ghostObj
	shadow := st.shadow
	log := st.havocLog
	allocB, allocOff := final.allocB, final.allocOff
	*st = *final
	st.heap, st.pre, st.labels, st.frames, st.ghostObj, st.shadow, st.havocLog = heap, pre, labels, frames, ghost, shadow, log
	st.allocB, st.allocOff = allocB, allocOff // references allocated by the hypothetical run are never reused
	st.pending = nil
	wk := st.ghostKey("wake_on_commit")
	cur := st.heapGet(st.heap, wk, wakeSort, false)
	st.nver[wk]++
	nw := st.declare(fmt.Sprintf("%s#%d", wk, st.nver[wk]), wakeSort)
	s := st.qv("s")
	st.assume(Forall([]*Term{s}, Eq(Select(nw, s), Or(Select(cur, s), Select(after, s))), Select(nw, s)))
	st.heap.vers[wk] = nw
}

// ---------------------------------------------------------------------------
// Transaction runners: client.DoTx(ctx, opts, f) / DoCtxTx / DoCtxTxRetry
//
// "runs f one or more times, each in a fresh transaction; returns nil only if the last run of f returned
// nil and its commit succeeded". At a call site the callback is executed once in place (a function literal
// is inlined, an action's Execute is used through its contract) on a fresh transaction:
//   * f returns nil: the runner returns nil, or (commit failure) an error with the tables rolled back;
//   * f returns an error: the runner returns an error and the tables are as before the call.
func (st *State) txRun(fr *Frame, in ssa.CallInstruction, callee *ssa.Function, name string, args []SVal, k func(st *State, res SVal)) {
	var fv *FuncV
	for _, a := range args {
		if f, ok := a.(*FuncV); ok && f.Fn != nil {
			fv = f
			break
		}
	}
	if fv == nil {
		st.unsupported("transaction runner called with an unknown callback")
	}
	if callee == nil {
		st.e.note(st.u.name, "contract", name+" (assumed: runs its argument once in a transaction of its own)")
	} else {
		st.e.note(st.u.name, "intrinsic", "ent.Client."+name+" (transaction idiom)")
	}
	// units that talk about transactions (module txspec) count them
	for _, m := range st.u.c.Uses {
		if m == "txspec" {
			st.ghostSet("tx_epoch", nil, Add(st.ghostGet(st.heap, "tx_epoch", nil, SInt), IntLit(1)))
		}
	}
	tables := map[string]*Term{}
	for key, v := range st.heap.vers {
		if strings.HasPrefix(key, "T|") {
			tables[key] = v
		}
	}
	logLen := len(st.havocLog)
	rollback := func(st2 *State) {
		// the database state is the one before the transaction
		for key := range st2.heap.vers {
			if strings.HasPrefix(key, "T|") {
				if old, ok := tables[key]; ok {
					st2.heap.vers[key] = old
				} else {
					delete(st2.heap.vers, key)
				}
			}
		}
		// tables first looked at after the rollback must resolve to what they were before the transaction: the
		// havoc events recorded inside it (contracts of the actions it ran) no longer apply to table arrays
		if len(st2.havocLog) > logLen {
			nl := append([]havocEvent(nil), st2.havocLog...)
			for i := logLen; i < len(nl); i++ {
				nl[i].Except = append(append([]string(nil), nl[i].Except...), "T:*")
			}
			st2.havocLog = nl
		}
	}
	tx := st.allocRef()
	var ctx SVal
	if len(args) > 1 {
		ctx = args[1]
	}
	// arguments of the callback
	var cbArgs []SVal
	target := fv.Fn
	bindings := fv.Bindings
	nparams := len(target.Params)
	switch {
	case nparams == 1:
		cbArgs = []SVal{tx}
	case nparams == 2:
		cbArgs = []SVal{ctx, tx}
	case nparams == 3: // bound receiver passed explicitly
		cbArgs = []SVal{fv.Bound, ctx, tx}
	default:
		st.unsupported("transaction callback with %d parameters", nparams)
	}
	done := func(st2 *State, res SVal) {
		e := st2.scalar(res)
		// the callback failed: rolled back, its error (possibly wrapped) is returned
		if !isLitZero(e) {
			st3 := st2.clone()
			st3.assume(Neq(e, IntLit(0)))
			if st3.foldKnown(Neq(e, IntLit(0))) != TFalse {
				rollback(st3)
				out := st3.newErr("txerr")
				st3.assume(Eq(st3.errIs("notfound", out), st3.errIs("notfound", e)))
				st3.tr("tx-rolled-back")
				k(st3, out)
			}
		}
		if st2.nonzero[e.S] {
			return
		}
		st2.assume(Eq(e, IntLit(0)))
		// commit may fail
		if st2.u.c.Options["storage"] != "reliable" {
			st4 := st2.clone()
			rollback(st4)
			ce := st4.newErr("commiterr")
			st4.ghostSet("dbfailed", nil, TTrue)
			st4.tr("commit-failed")
			k(st4, ce)
		}
		st2.tr("tx-committed")
		k(st2, IntLit(0))
	}
	// a bound method value (action.Execute): unwrap to the method and its receiver
	if target.Synthetic != "" && strings.HasSuffix(target.Name(), "$bound") {
		if obj, ok := target.Object().(*types.Func); ok {
			if m := st.e.prog.FuncValue(obj); m != nil {
				target = m
				cbArgs = append([]SVal{bindings[0]}, cbArgs...)
				bindings = nil
			}
		}
	}
	if ct, ok := st.e.specs.Contracts[fnKey(target)]; ok && !ct.Inline {
		st.applyContract(fr, in, ct, target, cbArgs, target.Signature.Results(), done)
		return
	}
	st.inline(fr, in, target, bindings, cbArgs, done)
}
