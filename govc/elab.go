package main

import (
	"fmt"
	"go/ast"
	"go/parser"
	"go/types"
	"math/big"
	"os"
	"strconv"
	"strings"

	"golang.org/x/tools/go/ssa"
)

type envVar struct {
	v SVal
	t types.Type
}

// Env is the elaboration environment of a contract expression.
type Env struct {
	vars       map[string]envVar
	cells      map[string]*AddrV // captured variables: auto-dereferenced
	old        *HeapView
	cur        *HeapView
	pkg        string
	visited    *MapIterV
	entry      *HeapView       // heap at the entry of the loop whose invariant is being read (entry(...))
	qn         *int
	assume     bool            // the expression is being assumed (callee contract), not proved
	fnKey      string          // function whose locals are in scope (loop invariants)
	locals     map[string]bool // names in vars / cells that are locals of that function
	inOld      bool            // inside old(...)
	qdepth     int             // number of enclosing ordinary quantifiers
	assumeInv  bool            // a loop invariant being assumed at the loop head (clock quantifiers get a fresh instant)
	outer      *HeapView       // the view outside the enclosing old(...), for cur(...)
	allocBound *Term           // "allocated(x)": x existed when the contract's function was entered
}

func (env *Env) child() *Env {
	n := *env
	n.vars = make(map[string]envVar, len(env.vars))
	for k, v := range env.vars {
		n.vars[k] = v
	}
	return &n
}

var (
	tInt    = types.Typ[types.Int]
	tBool   = types.Typ[types.Bool]
	tString = types.Typ[types.String]
	tReal   = types.Typ[types.Float64]
)

func (st *State) unitEnv(fr *Frame, results []SVal) *Env {
	u := st.u
	env := &Env{vars: map[string]envVar{}, cells: map[string]*AddrV{}, old: st.pre, pkg: u.c.Pkg}
	// the unit frame is always frames[0]
	uf := st.frames[0]
	for i, p := range u.fn.Params {
		env.vars[u.c.Params[i]] = envVar{uf.vals[p], p.Type()}
	}
	for i, fv := range u.fn.FreeVars {
		if i < len(uf.bindings) {
			if pt, ok := fv.Type().Underlying().(*types.Pointer); ok {
				env.cells[fv.Name()] = st.ptrAddr(uf.bindings[i], pt.Elem())
			} else {
				env.vars[fv.Name()] = envVar{uf.bindings[i], fv.Type()}
			}
		}
	}
	if results != nil {
		sig := u.fn.Signature.Results()
		for i, r := range results {
			if i < len(u.c.Results) {
				env.vars[u.c.Results[i]] = envVar{r, sig.At(i).Type()}
			}
		}
		if len(results) == 1 {
			env.vars["result"] = envVar{results[0], sig.At(0).Type()}
		}
	}
	return env
}

func (st *State) view(env *Env) *HeapView {
	if env.cur != nil {
		return env.cur
	}
	return st.heap
}

func (st *State) elabBool(env *Env, e *Expr) *Term {
	v, _ := st.elab(env, e)
	t, ok := v.(*Term)
	if !ok || t.Sort != SBool {
		st.unsupported("contract expression %s is not boolean", e.String())
	}
	return t
}

func (st *State) resolveType(pkgPath, s string) types.Type {
	s = strings.TrimSpace(s)
	switch s {
	case "int", "Id", "Time", "Ref", "Chan", "Err", "Dur":
		return tInt
	case "bool":
		return tBool
	case "string":
		return tString
	case "real":
		return tReal
	}
	s = strings.ReplaceAll(s, "chanstruct{}", "chan struct{}")
	if strings.HasPrefix(s, "chan") && len(s) > 4 && s[4] != ' ' && !strings.HasPrefix(s, "chan.") {
		s = "chan " + s[4:] // the contract tokenizer drops the blank in "chan T"
	}
	ex, err := parser.ParseExpr(s)
	if err != nil {
		st.unsupported("cannot parse type %q: %v", s, err)
	}
	return st.resolveTypeExpr(pkgPath, ex)
}

func (st *State) resolveTypeExpr(pkgPath string, ex ast.Expr) types.Type {
	switch x := ex.(type) {
	case *ast.StarExpr:
		return types.NewPointer(st.resolveTypeExpr(pkgPath, x.X))
	case *ast.ArrayType:
		if x.Len == nil {
			return types.NewSlice(st.resolveTypeExpr(pkgPath, x.Elt))
		}
	case *ast.MapType:
		return types.NewMap(st.resolveTypeExpr(pkgPath, x.Key), st.resolveTypeExpr(pkgPath, x.Value))
	case *ast.ChanType:
		return types.NewChan(types.SendRecv, st.resolveTypeExpr(pkgPath, x.Value))
	case *ast.Ident:
		switch x.Name {
		case "int", "Id", "Time", "Ref", "Chan", "Err", "Dur":
			return tInt
		}
		if o := types.Universe.Lookup(x.Name); o != nil {
			if tn, ok := o.(*types.TypeName); ok {
				return tn.Type()
			}
		}
		if p := st.e.tpkgs[pkgPath]; p != nil {
			if o := p.Types.Scope().Lookup(x.Name); o != nil {
				return o.Type()
			}
		}
		st.unsupported("unknown type %s in package %s", x.Name, pkgPath)
	case *ast.SelectorExpr:
		if id, ok := x.X.(*ast.Ident); ok {
			if p := st.e.tpkgs[pkgPath]; p != nil {
				for _, imp := range p.Types.Imports() {
					if imp.Name() == id.Name {
						if o := imp.Scope().Lookup(x.Sel.Name); o != nil {
							return o.Type()
						}
					}
				}
			}
			// any loaded package by name
			for _, p := range st.e.tpkgs {
				if p.Types.Name() == id.Name {
					if o := p.Types.Scope().Lookup(x.Sel.Name); o != nil {
						return o.Type()
					}
				}
			}
			for _, sp := range st.e.prog.AllPackages() {
				if sp.Pkg.Name() == id.Name {
					if o := sp.Pkg.Scope().Lookup(x.Sel.Name); o != nil {
						return o.Type()
					}
				}
			}
		}
		st.unsupported("unknown qualified type")
	case *ast.StructType:
		if x.Fields == nil || len(x.Fields.List) == 0 {
			return types.NewStruct(nil, nil)
		}
	case *ast.IndexExpr, *ast.IndexListExpr:
		// generic instantiation: look up by the printed form among SSA-known types is not supported
	}
	st.unsupported("unsupported type expression")
	return nil
}

func (st *State) scalarSort(t types.Type) Sort {
	ls := st.e.leaves(t)
	if len(ls) != 1 {
		st.unsupported("type %s is not scalar in a specification", typeKey(t))
	}
	return ls[0].Sort
}

func (st *State) elab(env *Env, e *Expr) (SVal, types.Type) {
	switch e.Kind {
	case "bool":
		return BoolLit(e.Name == "true"), tBool
	case "int":
		bi, _ := new(big.Int).SetString(e.Name, 10)
		return BigLit(bi), tInt
	case "real":
		f, _ := strconv.ParseFloat(e.Name, 64)
		return RealLit(f), tReal
	case "str":
		return st.strLit(e.Name), tString
	case "nil":
		return IntLit(0), nil
	case "ident":
		if v, ok := env.vars[e.Name]; ok {
			st.recordBinding(env, e.Name, v.t)
			return v.v, v.t
		}
		if a, ok := env.cells[e.Name]; ok {
			st.recordBinding(env, e.Name, a.Type)
			return st.load(st.view(env), a), a.Type
		}
		if f, ok := st.e.specs.Funcs[e.Name]; ok && (f.Kind == "const" || len(f.Params) == 0) {
			return st.specCall(env, f, nil)
		}
		// package-level variable of the contract's package
		if p := st.e.spkgs[env.pkg]; p != nil {
			if g, ok := p.Members[e.Name]; ok {
				if gv, ok := g.(interface{ Type() types.Type }); ok {
					if pt, ok := gv.Type().(*types.Pointer); ok {
						a := &AddrV{Kind: "global", Key: "G|" + env.pkg + "." + e.Name, Type: pt.Elem()}
						if c, ok := globalConst(st, a); ok {
							return c, pt.Elem()
						}
						return st.load(st.view(env), a), pt.Elem()
					}
				}
			}
		}
		// a local that was renamed since the binding table was recorded: if exactly one local of the recorded type is
		// not itself a recorded name, it is the renamed one
		if v, t, ok := st.rebindLocal(env, e.Name); ok {
			return v, t
		}
		if os.Getenv("GOVC_DEBUG") != "" {
			var ns []string
			for k := range env.vars {
				ns = append(ns, k)
			}
			for k := range env.cells {
				ns = append(ns, "&"+k)
			}
			fmt.Fprintf(os.Stderr, "SCOPE: %v\n", ns)
		}
		st.unsupported("unknown identifier %q in contract", e.Name)
	case "old":
		n := *env
		if !env.inOld {
			n.outer = env.cur
		}
		n.inOld = true
		n.cur = env.old
		return st.elab(&n, e.Args[0])
	case "entry":
		if env.entry == nil {
			st.unsupported("entry(...) outside a loop invariant")
		}
		n := *env
		if !env.inOld {
			n.outer = env.cur
		}
		n.inOld = true
		n.cur = env.entry
		return st.elab(&n, e.Args[0])
	case "unary":
		v, t := st.elab(env, e.Args[0])
		x := st.scalar(v)
		if e.Op == "!" {
			return Not(x), tBool
		}
		if x.Sort == SReal {
			return App(SReal, "-", x), t
		}
		return Sub(IntLit(0), x), t
	case "binary":
		return st.elabBinary(env, e)
	case "field":
		v, t := st.elab(env, e.Args[0])
		return st.elabField(env, v, t, e.Name)
	case "index":
		v, t := st.elab(env, e.Args[0])
		iv, _ := st.elab(env, e.Args[1])
		return st.elabIndex(env, v, t, iv)
	case "call":
		return st.elabCall(env, e)
	case "forall", "exists":
		if e.Kind == "exists" && len(e.Vars) == 1 && e.Vars[0].Type == "clock" {
			return st.elabClockExists(env, e), tBool
		}
		n := env.child()
		n.qdepth = env.qdepth + 1
		var vars []*Term
		for _, qv := range e.Vars {
			t := st.resolveType(env.pkg, qv.Type)
			st.n++
			c := Const(fmt.Sprintf("%s!b%d", qv.Name, st.n), st.scalarSort(t))
			vars = append(vars, c)
			n.vars[qv.Name] = envVar{c, t}
		}
		body := st.elabBool(n, e.Args[0])
		var pats []*Term
		for _, p := range e.Pats {
			pv, _ := st.elab(n, p)
			pats = append(pats, st.scalar(pv))
		}
		if e.Kind == "forall" && len(e.AltPats) > 0 {
			groups := [][]*Term{pats}
			for _, g := range e.AltPats {
				var ts []*Term
				for _, p := range g {
					pv, _ := st.elab(n, p)
					ts = append(ts, st.scalar(pv))
				}
				groups = append(groups, ts)
			}
			return ForallAlt(vars, body, groups), tBool
		}
		if e.Kind == "forall" {
			return Forall(vars, body, pats...), tBool
		}
		return Exists(vars, body, pats...), tBool
	}
	st.unsupported("cannot elaborate %s", e.String())
	return nil, nil
}

func (st *State) elabField(env *Env, v SVal, t types.Type, name string) (SVal, types.Type) {
	if t == nil {
		st.unsupported("field %s of untyped value", name)
	}
	h := st.view(env)
	// slice pseudo-fields
	if sv, ok := v.(*SliceV); ok {
		switch name {
		case "len":
			return sv.Len, tInt
		case "base":
			return sv.Base, tInt
		case "cap":
			return sv.Cap, tInt
		}
	}
	if iv, ok := v.(*IfaceV); ok {
		switch name {
		case "tag":
			return iv.Tag, tInt
		case "val":
			return iv.Val, tInt
		}
	}
	var su *types.Struct
	var addr *AddrV
	switch u := t.Underlying().(type) {
	case *types.Pointer:
		s, ok := u.Elem().Underlying().(*types.Struct)
		if !ok {
			st.unsupported("field %s of pointer to non-struct %s", name, typeKey(t))
		}
		su = s
		addr = st.ptrAddr(v, u.Elem())
	case *types.Struct:
		su = u
		sv, ok := v.(*StructV)
		if !ok {
			st.unsupported("field of non-struct value")
		}
		idx, ft := findField(su, name)
		if idx < 0 {
			// promoted through embedded fields
			for i := 0; i < su.NumFields(); i++ {
				if su.Field(i).Embedded() {
					if es, ok := su.Field(i).Type().Underlying().(*types.Struct); ok {
						if j, _ := findField(es, name); j >= 0 {
							return st.elabField(env, sv.F[i], su.Field(i).Type(), name)
						}
					}
					if ep, ok := su.Field(i).Type().Underlying().(*types.Pointer); ok {
						if es, ok := ep.Elem().Underlying().(*types.Struct); ok {
							if j, _ := findField(es, name); j >= 0 {
								return st.elabField(env, sv.F[i], su.Field(i).Type(), name)
							}
						}
					}
				}
			}
			st.unsupported("no field %s in %s", name, typeKey(t))
		}
		return sv.F[idx], ft
	default:
		st.unsupported("field %s of %s", name, typeKey(t))
	}
	idx, ft := findField(su, name)
	if idx < 0 {
		for i := 0; i < su.NumFields(); i++ {
			if su.Field(i).Embedded() {
				if es, ok := su.Field(i).Type().Underlying().(*types.Struct); ok {
					if hasFieldDeep(es, name) {
						return st.elabField(env, st.fieldAddr(addr, i), types.NewPointer(su.Field(i).Type()), name)
					}
				}
			}
		}
		st.unsupported("no field %s in %s", name, typeKey(t))
	}
	fa := st.fieldAddr(addr, idx)
	return st.load(h, fa), ft
}

// hasFieldDeep: the struct has the field directly or through embedded struct values.
func hasFieldDeep(su *types.Struct, name string) bool {
	if i, _ := findField(su, name); i >= 0 {
		return true
	}
	for i := 0; i < su.NumFields(); i++ {
		if su.Field(i).Embedded() {
			if es, ok := su.Field(i).Type().Underlying().(*types.Struct); ok && hasFieldDeep(es, name) {
				return true
			}
		}
	}
	return false
}

func findField(su *types.Struct, name string) (int, types.Type) {
	for i := 0; i < su.NumFields(); i++ {
		if su.Field(i).Name() == name {
			return i, su.Field(i).Type()
		}
	}
	return -1, nil
}

func (st *State) elabIndex(env *Env, v SVal, t types.Type, iv SVal) (SVal, types.Type) {
	h := st.view(env)
	idx := st.scalar(iv)
	switch x := v.(type) {
	case *SliceV:
		a := &AddrV{Kind: "elem", Base: x.Base, Idx: Add(x.Off, idx), Key: "E|" + typeKey(x.Elem), Type: x.Elem}
		return st.load(h, a), x.Elem
	case *Term:
		if t != nil {
			if mt, ok := t.Underlying().(*types.Map); ok {
				// Go semantics: an absent key (or nil map) reads as the zero value
				has := And(Neq(x, IntLit(0)), st.mapHas(h, mt, x, idx))
				return st.iteVal(has, st.mapGet(h, mt, x, idx), st.zeroVal(mt.Elem()), mt.Elem()), mt.Elem()
			}
		}
		if x.Sort == SStr {
			return st.strAt(x, idx), tInt
		}
		if x.Sort.IsArray() {
			_, es := x.Sort.ArrayParts()
			r := Select(x, idx)
			var rt types.Type = tInt
			if es == SBool {
				rt = tBool
			}
			return r, rt
		}
	}
	st.unsupported("cannot index %T", v)
	return nil, nil
}

func (st *State) elabBinary(env *Env, e *Expr) (SVal, types.Type) {
	switch e.Op {
	case "&&", "||", "==>", "<==>":
		a := st.elabBool(env, e.Args[0])
		b := st.elabBool(env, e.Args[1])
		switch e.Op {
		case "&&":
			return And(a, b), tBool
		case "||":
			return Or(a, b), tBool
		case "==>":
			return Implies(a, b), tBool
		default:
			return Eq(a, b), tBool
		}
	}
	av, at := st.elab(env, e.Args[0])
	bv, bt := st.elab(env, e.Args[1])
	if e.Op == "==" || e.Op == "!=" {
		eq := st.valEq(av, at, bv, bt)
		if e.Op == "!=" {
			return Not(eq), tBool
		}
		return eq, tBool
	}
	a, b := st.scalar(av), st.scalar(bv)
	rt := at
	if rt == nil {
		rt = bt
	}
	switch e.Op {
	case "<":
		return Lt(a, b), tBool
	case "<=":
		return Le(a, b), tBool
	case ">":
		return Gt(a, b), tBool
	case ">=":
		return Ge(a, b), tBool
	case "+":
		if a.Sort == SStr {
			return st.strConcat(a, b), tString
		}
		return Add(a, b), rt
	case "-":
		return Sub(a, b), rt
	case "*":
		return Mul(a, b), rt
	case "/":
		if a.Sort == SReal || b.Sort == SReal {
			return App(SReal, "/", ToReal(a), ToReal(b)), tReal
		}
		return App(SInt, "go_div", a, b), rt
	case "%":
		return App(SInt, "go_mod", a, b), rt
	}
	st.unsupported("operator %s", e.Op)
	return nil, nil
}

func (st *State) valEq(av SVal, at types.Type, bv SVal, bt types.Type) *Term {
	// nil comparisons
	if bt == nil {
		switch x := av.(type) {
		case *SliceV:
			return Eq(x.Base, IntLit(0))
		case *IfaceV:
			return Eq(x.Tag, IntLit(0))
		}
	}
	if at == nil {
		switch x := bv.(type) {
		case *SliceV:
			return Eq(x.Base, IntLit(0))
		case *IfaceV:
			return Eq(x.Tag, IntLit(0))
		}
	}
	switch x := av.(type) {
	case *StructV:
		y, ok := bv.(*StructV)
		if !ok {
			st.unsupported("== between struct and %T", bv)
		}
		fa, fb := st.flatten(x, x.Typ), st.flatten(y, x.Typ)
		var cs []*Term
		for i := range fa {
			cs = append(cs, Eq(fa[i], fb[i]))
		}
		return And(cs...)
	case *IfaceV:
		y, ok := bv.(*IfaceV)
		if !ok {
			st.unsupported("== between interface and %T", bv)
		}
		return And(Eq(x.Tag, y.Tag), Eq(x.Val, y.Val))
	case *SliceV:
		y, ok := bv.(*SliceV)
		if !ok {
			st.unsupported("== between slice and %T", bv)
		}
		return And(Eq(x.Base, y.Base), Eq(x.Off, y.Off), Eq(x.Len, y.Len))
	}
	return Eq(st.scalar(av), st.scalar(bv))
}

func (st *State) elabCall(env *Env, e *Expr) (SVal, types.Type) {
	h := st.view(env)
	arg := func(i int) (SVal, types.Type) { return st.elab(env, e.Args[i]) }
	switch e.Name {
	case "len":
		v, t := arg(0)
		switch x := v.(type) {
		case *SliceV:
			return x.Len, tInt
		case *Term:
			if x.Sort == SStr {
				return st.strLen(x), tInt
			}
			if t != nil {
				if mt, ok := t.Underlying().(*types.Map); ok {
					return st.mapLen(h, mt, x), tInt
				}
			}
		}
		st.unsupported("len of %T", v)
	case "has":
		m, t := arg(0)
		k, _ := arg(1)
		mt, ok := t.Underlying().(*types.Map)
		if !ok {
			st.unsupported("has() on non-map")
		}
		mm := st.scalar(m)
		return And(Neq(mm, IntLit(0)), st.mapHas(h, mt, mm, st.scalar(k))), tBool
	case "visited":
		k, _ := arg(0)
		if env.visited == nil {
			st.unsupported("visited() outside a map-range loop invariant")
		}
		ks := st.e.leaves(env.visited.KeyT)[0].Sort
		return Select(Const(env.visited.Visited, ArrS(ks, SBool)), st.scalar(k)), tBool
	case "hasPrefix":
		s, _ := arg(0)
		p, _ := arg(1)
		return st.strPrefix(st.scalar(s), st.scalar(p)), tBool
	case "ite":
		c := st.elabBool(env, e.Args[0])
		a, at := arg(1)
		b, _ := arg(2)
		if at == nil {
			at = tInt
		}
		ta, tb := st.scalar(a), st.scalar(b)
		return Ite(c, ta, tb), at
	case "real":
		a, _ := arg(0)
		return ToReal(st.scalar(a)), tReal
	case "floor":
		a, _ := arg(0)
		return App(SInt, "to_int", ToReal(st.scalar(a))), tInt
	case "nonnil":
		a, at := arg(0)
		return Not(st.valEq(a, at, IntLit(0), nil)), tBool
	case "deref":
		a, at := arg(0)
		pt, ok := at.Underlying().(*types.Pointer)
		if !ok {
			st.unsupported("deref of non-pointer")
		}
		return st.load(h, st.ptrAddr(a, pt.Elem())), pt.Elem()
	case "allocated":
		// allocated(r): r existed at function entry
		a, _ := arg(0)
		r := st.scalar(a)
		bound := Const("A0", SInt)
		if env.allocBound != nil {
			bound = env.allocBound
		}
		return And(Gt(r, IntLit(0)), Lt(r, bound)), tBool
	case "typeis":
		// typeis(ifaceValue, "type string")
		a, _ := arg(0)
		iv, ok := a.(*IfaceV)
		if !ok {
			st.unsupported("typeis on non-interface")
		}
		ts := e.Args[1]
		if ts.Kind != "str" {
			st.unsupported("typeis needs a string literal")
		}
		t := st.resolveType(env.pkg, ts.Name)
		return Eq(iv.Tag, IntLit(int64(st.e.typeID(typeKey(t))))), tBool
	}
	if f, ok := st.e.specs.Funcs[e.Name]; ok {
		var args []envVar
		for i := range e.Args {
			v, t := arg(i)
			args = append(args, envVar{v, t})
		}
		return st.specCall(env, f, args)
	}
	if r, t, ok := st.specBuiltin(env, e); ok {
		return r, t
	}
	st.unsupported("unknown function %s in contract", e.Name)
	return nil, nil
}

func (st *State) specCall(env *Env, f *SpecFunc, args []envVar) (SVal, types.Type) {
	mod := st.e.specs.Modules[f.Module]
	pkg := mod.Pkg
	if pkg == "" {
		pkg = env.pkg
	}
	if len(args) != len(f.Params) {
		st.unsupported("spec function %s takes %d arguments, got %d", f.Name, len(f.Params), len(args))
	}
	rt := st.resolveType(pkg, f.Result)
	switch f.Kind {
	case "define":
		n := &Env{vars: map[string]envVar{}, cells: env.cells, old: env.old, cur: env.cur, pkg: pkg, visited: env.visited}
		for i, p := range f.Params {
			pt := st.resolveType(pkg, p.Type)
			v := args[i].v
			// an untyped nil/int literal passed for a typed parameter
			n.vars[p.Name] = envVar{v, pt}
		}
		return st.elab(n, f.Body)
	case "pure", "const":
		var sorts []Sort
		var ts []*Term
		for i, p := range f.Params {
			pt := st.resolveType(pkg, p.Type)
			s := st.scalarSort(pt)
			sorts = append(sorts, s)
			t := st.scalar(args[i].v)
			if t.Sort != s {
				if s == SReal && t.Sort == SInt {
					t = ToReal(t)
				} else {
					st.unsupported("argument %d of %s has sort %s, want %s", i, f.Name, t.Sort, s)
				}
			}
			ts = append(ts, t)
		}
		rs := st.scalarSort(rt)
		if len(sorts) == 0 {
			return st.declare("spec."+f.Name, rs), rt
		}
		fn := st.declareFun("spec."+f.Name, sorts, rs)
		return App(rs, fn, ts...), rt
	case "ghost":
		var ts []*Term
		for i := range f.Params {
			ts = append(ts, st.scalar(args[i].v))
		}
		rs := st.scalarSort(rt)
		return st.ghostGet(st.view(env), f.Name, ts, rs), rt
	}
	st.unsupported("spec function kind %s", f.Kind)
	return nil, nil
}

// loadModules asserts the axioms of the named spec modules (once per state).
func (st *State) loadModules(names []string) {
	for _, name := range names {
		if st.declared["module:"+name] {
			continue
		}
		st.declared["module:"+name] = true
		mod, ok := st.e.specs.Modules[name]
		if !ok {
			st.unsupported("unknown spec module %s", name)
		}
		st.loadModules(mod.Imports)
		for _, ax := range mod.Axioms {
			env := &Env{vars: map[string]envVar{}, cells: map[string]*AddrV{}, old: st.pre, cur: st.pre, pkg: mod.Pkg}
			st.assume(st.elabBool(env, ax.E))
		}
	}
}

// elabClockExists: "exists now clock :: P(now)" ranges over the instants at which the unit read the
// clock. Proving: a finite disjunction over the clock readings of this path. Assuming (a callee's
// contract): a fresh instant between the clock before and after the call.
func (st *State) elabClockExists(env *Env, e *Expr) *Term {
	name := e.Vars[0].Name
	if (env.assume || env.assumeInv) && env.qdepth > 0 {
		// the witness instant would have to depend on the enclosing bound variables
		st.unsupported("an assumed clock quantifier must not be nested inside another quantifier: %s", e.String())
	}
	if env.assume {
		n := env.child()
		t := st.clockNow()
		n.vars[name] = envVar{t, tInt}
		return st.elabBool(n, e.Args[0])
	}
	reads, _ := st.ghostObj["clockreads"].([]*Term)
	if env.assumeInv {
		// an assumed loop invariant: the instant is some clock reading of an earlier iteration (or of the code before
		// the loop) - a fresh instant not before the unit's first reading and not after the clock now; it counts as a
		// reading from here on, so that the preserved / post obligations can use it as their witness
		t := st.fresh("then", SInt)
		if len(reads) > 0 {
			st.assume(Ge(t, reads[0]))
		} else {
			st.assume(Gt(t, IntLit(0)))
		}
		if last, ok := st.ghostObj["clock"].(*Term); ok {
			st.assume(Le(t, last))
		}
		st.ghostObj["clockreads"] = append(append([]*Term(nil), reads...), t)
		n := env.child()
		n.vars[name] = envVar{t, tInt}
		return st.elabBool(n, e.Args[0])
	}
	// candidates: every reading of this path, and the instant the unit was entered (a unit that returns before it
	// reads the clock can still satisfy a clause that is vacuous in "now")
	t0 := st.fresh("clock.entry", SInt)
	st.assume(Gt(t0, IntLit(0)))
	if len(reads) > 0 {
		st.assume(Le(t0, reads[0]))
	}
	var ds []*Term
	for _, t := range append([]*Term{t0}, reads...) {
		n := env.child()
		n.vars[name] = envVar{t, tInt}
		ds = append(ds, st.elabBool(n, e.Args[0]))
	}
	return Or(ds...)
}

// recordBinding notes, while a check runs with --record-bindings, the type of each local an invariant names.
func (st *State) recordBinding(env *Env, name string, t types.Type) {
	if st.e.recBindings == nil || env.fnKey == "" || !env.locals[name] || t == nil {
		return
	}
	m := st.e.recBindings[env.fnKey]
	if m == nil {
		m = map[string]string{}
		st.e.recBindings[env.fnKey] = m
	}
	m[name] = typeKey(t)
	if fn := st.e.fnByKey[env.fnKey]; fn != nil {
		if k := localOrdinal(fn, name, typeKey(t)); k > 0 {
			m[name] = fmt.Sprintf("%s@%d", typeKey(t), k)
		}
	}
}

var localDeclCache = map[*ssa.Function]map[string]*types.Var{}

// localDecls: the named locals of a function (by their debug references), by name; a name declared twice is dropped.
func localDecls(fn *ssa.Function) map[string]*types.Var {
	if m, ok := localDeclCache[fn]; ok {
		return m
	}
	m := map[string]*types.Var{}
	dup := map[string]bool{}
	for _, b := range fn.Blocks {
		for _, in := range b.Instrs {
			d, ok := in.(*ssa.DebugRef)
			if !ok {
				continue
			}
			obj, ok := d.Object().(*types.Var)
			if !ok || obj.IsField() {
				continue
			}
			if prev, ok := m[obj.Name()]; ok && prev != obj {
				dup[obj.Name()] = true
			}
			m[obj.Name()] = obj
		}
	}
	for n := range dup {
		delete(m, n)
	}
	localDeclCache[fn] = m
	return m
}

// localOrdinal: the position (1-based, in declaration order) of local name among the locals of fn whose type has
// the given key; 0 when unknown. A pure rename keeps it.
func localOrdinal(fn *ssa.Function, name, tkey string) int {
	decls := localDecls(fn)
	me, ok := decls[name]
	if !ok {
		return 0
	}
	k := 1
	for _, o := range decls {
		if o != me && typeKey(o.Type()) == tkey && o.Pos() < me.Pos() {
			k++
		}
	}
	return k
}

func (st *State) rebindLocal(env *Env, name string) (SVal, types.Type, bool) {
	if env.fnKey == "" || st.e.bindings == nil {
		return nil, nil, false
	}
	tab := st.e.bindings[env.fnKey]
	want, ok := tab[name]
	if !ok {
		return nil, nil, false
	}
	wantOrd := 0
	if i := strings.LastIndex(want, "@"); i >= 0 {
		fmt.Sscanf(want[i+1:], "%d", &wantOrd)
		want = want[:i]
	}
	var cands []string
	for n := range env.locals {
		if _, recorded := tab[n]; recorded {
			continue
		}
		var t types.Type
		if v, ok := env.vars[n]; ok {
			t = v.t
		} else if a, ok := env.cells[n]; ok {
			t = a.Type
		}
		if t != nil && typeKey(t) == want {
			cands = append(cands, n)
		}
	}
	if len(cands) > 1 && wantOrd > 0 {
		// several new locals of that type: take the one declared at the recorded position among the locals of the type
		if fn := st.e.fnByKey[env.fnKey]; fn != nil {
			var at []string
			for _, c := range cands {
				if localOrdinal(fn, c, want) == wantOrd {
					at = append(at, c)
				}
			}
			cands = at
		}
	}
	if len(cands) != 1 {
		return nil, nil, false
	}
	st.e.note(st.u.name, "assumption", fmt.Sprintf("local %q named by a loop invariant of %s no longer exists; rebound to %q, the only new local of the same type (%s)", name, env.fnKey, cands[0], want))
	if v, ok := env.vars[cands[0]]; ok {
		return v.v, v.t, true
	}
	a := env.cells[cands[0]]
	return st.load(st.view(env), a), a.Type, true
}
