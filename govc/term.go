package main

import (
	"fmt"
	"math/big"
	"strings"
)

// Sort is an SMT-LIB sort, printed verbatim.
type Sort string

const (
	SInt  Sort = "Int"
	SBool Sort = "Bool"
	SReal Sort = "Real"
	SStr  Sort = "Str" // printed as uninterpreted sort Str or native String depending on mode
)

func ArrS(idx, elem Sort) Sort { return Sort("(Array " + string(idx) + " " + string(elem) + ")") }

func (s Sort) IsArray() bool { return strings.HasPrefix(string(s), "(Array ") }

// ArrayParts splits "(Array I E)" into I and E.
func (s Sort) ArrayParts() (Sort, Sort) {
	str := string(s)
	str = strings.TrimSuffix(strings.TrimPrefix(str, "(Array "), ")")
	// index sort is first token or parenthesised group
	depth := 0
	for i, c := range str {
		switch c {
		case '(':
			depth++
		case ')':
			depth--
		case ' ':
			if depth == 0 {
				return Sort(str[:i]), Sort(str[i+1:])
			}
		}
	}
	panic("bad array sort " + string(s))
}

// Term is an SMT term in text form with its sort. Lit is set for literals
// (bool, *big.Int, string) so that the executor can fold constants.
type Term struct {
	S    string
	Sort Sort
	Lit  any
}

func (t *Term) String() string { return t.S }

var (
	TTrue  = &Term{"true", SBool, true}
	TFalse = &Term{"false", SBool, false}
)

func IntLit(v int64) *Term { return BigLit(big.NewInt(v)) }

func BigLit(v *big.Int) *Term {
	if v.Sign() < 0 {
		return &Term{"(- " + new(big.Int).Neg(v).String() + ")", SInt, new(big.Int).Set(v)}
	}
	return &Term{v.String(), SInt, new(big.Int).Set(v)}
}

func BoolLit(b bool) *Term {
	if b {
		return TTrue
	}
	return TFalse
}

func RealLit(f float64) *Term {
	r := new(big.Rat)
	r.SetFloat64(f)
	n, d := r.Num(), r.Denom()
	s := ""
	if n.Sign() < 0 {
		s = fmt.Sprintf("(- (/ %s.0 %s.0))", new(big.Int).Neg(n).String(), d.String())
	} else {
		s = fmt.Sprintf("(/ %s.0 %s.0)", n.String(), d.String())
	}
	return &Term{s, SReal, f}
}

func Const(name string, s Sort) *Term { return &Term{S: sym(name), Sort: s} }

// sym quotes a symbol when needed.
func sym(name string) string {
	simple := true
	for i, c := range name {
		if !(c >= 'a' && c <= 'z' || c >= 'A' && c <= 'Z' || c == '_' || c == '!' || c == '.' || c == '$' || c == '@' || (i > 0 && c >= '0' && c <= '9')) {
			simple = false
			break
		}
	}
	if simple && name != "" {
		return name
	}
	name = strings.ReplaceAll(name, "|", "!")
	name = strings.ReplaceAll(name, "\\", "!")
	return "|" + name + "|"
}

func App(s Sort, op string, args ...*Term) *Term {
	var b strings.Builder
	b.WriteString("(")
	b.WriteString(op)
	for _, a := range args {
		b.WriteString(" ")
		b.WriteString(a.S)
	}
	b.WriteString(")")
	return &Term{S: b.String(), Sort: s}
}

func isTrue(t *Term) bool  { b, ok := t.Lit.(bool); return ok && b }
func isFalse(t *Term) bool { b, ok := t.Lit.(bool); return ok && !b }

func Not(a *Term) *Term {
	if isTrue(a) {
		return TFalse
	}
	if isFalse(a) {
		return TTrue
	}
	if strings.HasPrefix(a.S, "(not ") {
		return &Term{S: a.S[5 : len(a.S)-1], Sort: SBool}
	}
	return App(SBool, "not", a)
}

func And(as ...*Term) *Term {
	var keep []*Term
	for _, a := range as {
		if isFalse(a) {
			return TFalse
		}
		if isTrue(a) {
			continue
		}
		keep = append(keep, a)
	}
	switch len(keep) {
	case 0:
		return TTrue
	case 1:
		return keep[0]
	}
	return App(SBool, "and", keep...)
}

func Or(as ...*Term) *Term {
	var keep []*Term
	for _, a := range as {
		if isTrue(a) {
			return TTrue
		}
		if isFalse(a) {
			continue
		}
		keep = append(keep, a)
	}
	switch len(keep) {
	case 0:
		return TFalse
	case 1:
		return keep[0]
	}
	return App(SBool, "or", keep...)
}

func Implies(a, b *Term) *Term {
	if isTrue(a) {
		return b
	}
	if isFalse(a) || isTrue(b) {
		return TTrue
	}
	return App(SBool, "=>", a, b)
}

func Eq(a, b *Term) *Term {
	if a.S == b.S {
		return TTrue
	}
	if ai, ok := a.Lit.(*big.Int); ok {
		if bi, ok := b.Lit.(*big.Int); ok {
			return BoolLit(ai.Cmp(bi) == 0)
		}
	}
	if ab, ok := a.Lit.(bool); ok {
		if bb, ok := b.Lit.(bool); ok {
			return BoolLit(ab == bb)
		}
		if ab {
			return b
		}
		return Not(b)
	}
	if bb, ok := b.Lit.(bool); ok {
		if bb {
			return a
		}
		return Not(a)
	}
	if as, ok := a.Lit.(string); ok {
		if bs, ok := b.Lit.(string); ok {
			return BoolLit(as == bs)
		}
	}
	if a.Sort != b.Sort {
		if a.Sort == SInt && b.Sort == SReal {
			a = ToReal(a)
		} else if a.Sort == SReal && b.Sort == SInt {
			b = ToReal(b)
		} else {
			panic(fmt.Sprintf("Eq sort mismatch: %s:%s vs %s:%s", a.S, a.Sort, b.S, b.Sort))
		}
	}
	return App(SBool, "=", a, b)
}

func Neq(a, b *Term) *Term { return Not(Eq(a, b)) }

func Ite(c, a, b *Term) *Term {
	if isTrue(c) {
		return a
	}
	if isFalse(c) {
		return b
	}
	if a.S == b.S {
		return a
	}
	return App(a.Sort, "ite", c, a, b)
}

func ToReal(a *Term) *Term {
	if a.Sort == SReal {
		return a
	}
	if v, ok := a.Lit.(*big.Int); ok {
		f, _ := new(big.Float).SetInt(v).Float64()
		return RealLit(f)
	}
	return App(SReal, "to_real", a)
}

func arith(op string, a, b *Term) *Term {
	if a.Sort == SReal || b.Sort == SReal {
		a, b = ToReal(a), ToReal(b)
		if op == "div" {
			op = "/"
		}
		return App(SReal, op, a, b)
	}
	ai, aok := a.Lit.(*big.Int)
	bi, bok := b.Lit.(*big.Int)
	if aok && bok {
		r := new(big.Int)
		switch op {
		case "+":
			return BigLit(r.Add(ai, bi))
		case "-":
			return BigLit(r.Sub(ai, bi))
		case "*":
			return BigLit(r.Mul(ai, bi))
		}
	}
	if op == "+" && bok && bi.Sign() == 0 {
		return a
	}
	if op == "+" && aok && ai.Sign() == 0 {
		return b
	}
	if op == "-" && bok && bi.Sign() == 0 {
		return a
	}
	if op == "*" && bok && bi.Cmp(big.NewInt(1)) == 0 {
		return a
	}
	if op == "*" && aok && ai.Cmp(big.NewInt(1)) == 0 {
		return b
	}
	return App(SInt, op, a, b)
}

func Add(a, b *Term) *Term { return arith("+", a, b) }
func Sub(a, b *Term) *Term { return arith("-", a, b) }
func Mul(a, b *Term) *Term { return arith("*", a, b) }

func cmp(op string, a, b *Term) *Term {
	if a.Sort == SReal || b.Sort == SReal {
		a, b = ToReal(a), ToReal(b)
	}
	ai, aok := a.Lit.(*big.Int)
	bi, bok := b.Lit.(*big.Int)
	if aok && bok {
		c := ai.Cmp(bi)
		switch op {
		case "<":
			return BoolLit(c < 0)
		case "<=":
			return BoolLit(c <= 0)
		case ">":
			return BoolLit(c > 0)
		case ">=":
			return BoolLit(c >= 0)
		}
	}
	return App(SBool, op, a, b)
}

func Lt(a, b *Term) *Term { return cmp("<", a, b) }
func Le(a, b *Term) *Term { return cmp("<=", a, b) }
func Gt(a, b *Term) *Term { return cmp(">", a, b) }
func Ge(a, b *Term) *Term { return cmp(">=", a, b) }

func Select(arr, idx *Term) *Term {
	_, e := arr.Sort.ArrayParts()
	return App(e, "select", arr, idx)
}

func Store(arr, idx, v *Term) *Term { return App(arr.Sort, "store", arr, idx, v) }

// Forall builds a quantified formula; vars are (name, sort) pairs. pats are
// optional trigger terms.
func Forall(vars []*Term, body *Term, pats ...*Term) *Term { return quant("forall", vars, body, pats) }
func Exists(vars []*Term, body *Term, pats ...*Term) *Term { return quant("exists", vars, body, pats) }

// ForallAlt: universally quantified formula with several alternative trigger groups.
func ForallAlt(vars []*Term, body *Term, groups [][]*Term) *Term {
	if len(vars) == 0 {
		return body
	}
	var b strings.Builder
	b.WriteString("(forall (")
	for _, v := range vars {
		fmt.Fprintf(&b, "(%s %s)", v.S, sortStr(v.Sort))
	}
	b.WriteString(") (! " + body.S)
	for _, g := range groups {
		b.WriteString(" :pattern (")
		for i, p := range g {
			if i > 0 {
				b.WriteString(" ")
			}
			b.WriteString(p.S)
		}
		b.WriteString(")")
	}
	b.WriteString("))")
	return &Term{S: b.String(), Sort: SBool}
}

func quant(q string, vars []*Term, body *Term, pats []*Term) *Term {
	if len(vars) == 0 {
		return body
	}
	if _, ok := body.Lit.(bool); ok {
		return body
	}
	var b strings.Builder
	b.WriteString("(" + q + " (")
	for _, v := range vars {
		fmt.Fprintf(&b, "(%s %s)", v.S, sortStr(v.Sort))
	}
	b.WriteString(") ")
	if len(pats) > 0 {
		b.WriteString("(! " + body.S + " :pattern (")
		for i, p := range pats {
			if i > 0 {
				b.WriteString(" ")
			}
			b.WriteString(p.S)
		}
		b.WriteString(")))")
	} else {
		b.WriteString(body.S + ")")
	}
	return &Term{S: b.String(), Sort: SBool}
}

// nativeStrings switches the printing of sort Str to the SMT String theory.
var nativeStrings = false

func sortStr(s Sort) string {
	if nativeStrings {
		return strings.ReplaceAll(string(s), "Str", "String")
	}
	return string(s)
}
