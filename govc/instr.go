package main

import (
	"fmt"
	"go/token"
	"go/types"
	"math/big"
	"os"
	"strings"

	"golang.org/x/tools/go/ssa"
)

// execSimple executes a non-control instruction. It returns true when the
// path ended.
func (st *State) execSimple(fr *Frame, in ssa.Instruction) bool {
	switch x := in.(type) {
	case *ssa.DebugRef:
		// remember the value of source-level variables so that loop invariants can name locals
		if obj, ok := x.Object().(*types.Var); ok && !obj.IsField() {
			if os.Getenv("GOVC_DEBUG") == "2" {
				_, has := fr.vals[x.X]
				fmt.Fprintf(os.Stderr, "DBGREF %s -> %s (%T) has=%v\n", obj.Name(), x.X.Name(), x.X, has)
			}
			if v, ok2 := fr.vals[x.X]; ok2 {
				if fr.dbg == nil {
					fr.dbg = map[string]dbgVar{}
				}
				fr.dbg[obj.Name()] = dbgVar{v, x.X.Type(), x.IsAddr}
			}
		}
		return false
	case *ssa.Alloc:
		t := x.Type().Underlying().(*types.Pointer).Elem()
		r := st.allocRef()
		if at, ok := t.Underlying().(*types.Array); ok && !isOpaque(t) {
			// array backing store (e.g. of a variadic argument list): elements live in the slice-element arrays
			st.zeroElems(&SliceV{Base: r, Off: IntLit(0), Len: IntLit(at.Len()), Cap: IntLit(at.Len()), Elem: at.Elem()})
			fr.vals[x] = r
			break
		}
		a := st.ptrAddr(r, t)
		st.store(a, st.zeroVal(t))
		fr.vals[x] = r
	case *ssa.FieldAddr:
		pt := x.X.Type().Underlying().(*types.Pointer).Elem()
		pv := st.val(fr, x.X)
		if h, ok := pv.(*EntH); ok {
			// a field of an ent builder object (e.g. the query embedded in a Select builder): same handle
			fr.vals[x] = h
			break
		}
		if t, ok := pv.(*Term); ok {
			st.panicAt(fr, x, "nil-deref", Neq(t, IntLit(0)))
		}
		a := st.ptrAddr(pv, pt)
		fr.vals[x] = st.fieldAddr(a, x.Field)
	case *ssa.Field:
		sv, ok := st.val(fr, x.X).(*StructV)
		if !ok {
			st.unsupported("Field of non-struct value")
		}
		fr.vals[x] = sv.F[x.Field]
	case *ssa.IndexAddr:
		xv := st.val(fr, x.X)
		idx := st.scalar(st.val(fr, x.Index))
		switch s := xv.(type) {
		case *SliceV:
			st.panicAt(fr, x, "index", And(Ge(idx, IntLit(0)), Lt(idx, s.Len)))
			fr.vals[x] = &AddrV{Kind: "elem", Base: s.Base, Idx: Add(s.Off, idx), Key: "E|" + typeKey(s.Elem), Type: s.Elem}
		case *Term:
			if pt, ok := x.X.Type().Underlying().(*types.Pointer); ok {
				if at, ok := pt.Elem().Underlying().(*types.Array); ok {
					st.panicAt(fr, x, "index", And(Ge(idx, IntLit(0)), Lt(idx, IntLit(at.Len()))))
					fr.vals[x] = &AddrV{Kind: "elem", Base: s, Idx: idx, Key: "E|" + typeKey(at.Elem()), Type: at.Elem()}
					break
				}
			}
			st.unsupported("IndexAddr on %T (%s)", xv, x.X.Type())
		default:
			st.unsupported("IndexAddr on %T (%s)", xv, x.X.Type())
		}
	case *ssa.Index:
		xv := st.val(fr, x.X)
		idx := st.scalar(st.val(fr, x.Index))
		if s, ok := xv.(*Term); ok && s.Sort == SStr {
			st.panicAt(fr, x, "index", And(Ge(idx, IntLit(0)), Lt(idx, st.strLen(s))))
			fr.vals[x] = st.strAt(s, idx)
		} else {
			st.unsupported("Index on %T", xv)
		}
	case *ssa.UnOp:
		return st.execUnOp(fr, x)
	case *ssa.BinOp:
		fr.vals[x] = st.binop(fr, x, x.Op, st.val(fr, x.X), st.val(fr, x.Y), x.X.Type())
	case *ssa.Store:
		pt := x.Addr.Type().Underlying().(*types.Pointer).Elem()
		pv := st.val(fr, x.Addr)
		if t, ok := pv.(*Term); ok {
			st.panicAt(fr, x, "nil-deref", Neq(t, IntLit(0)))
		}
		st.store(st.ptrAddr(pv, pt), st.val(fr, x.Val))
	case *ssa.Extract:
		tv, ok := st.val(fr, x.Tuple).(*TupleV)
		if !ok {
			st.unsupported("Extract from non-tuple")
		}
		fr.vals[x] = tv.Vs[x.Index]
	case *ssa.Phi:
		// handled at block entry
	case *ssa.ChangeType:
		fr.vals[x] = st.val(fr, x.X)
	case *ssa.ChangeInterface:
		v := st.val(fr, x.X)
		fr.vals[x] = st.convertIface(v, x.X.Type(), x.Type())
	case *ssa.Convert:
		fr.vals[x] = st.convert(x, st.val(fr, x.X), x.X.Type(), x.Type())
	case *ssa.MakeInterface:
		fr.vals[x] = st.makeInterface(st.val(fr, x.X), x.X.Type(), x.Type())
	case *ssa.TypeAssert:
		return st.typeAssert(fr, x)
	case *ssa.MakeClosure:
		fv := &FuncV{Fn: x.Fn.(*ssa.Function)}
		for _, b := range x.Bindings {
			fv.Bindings = append(fv.Bindings, st.val(fr, b))
		}
		fr.vals[x] = fv
	case *ssa.MakeSlice:
		ln := st.scalar(st.val(fr, x.Len))
		cp := st.scalar(st.val(fr, x.Cap))
		elem := x.Type().Underlying().(*types.Slice).Elem()
		base := st.allocRef()
		sv := &SliceV{Base: base, Off: IntLit(0), Len: ln, Cap: cp, Elem: elem}
		st.zeroElems(sv)
		fr.vals[x] = sv
	case *ssa.MakeMap:
		r := st.allocRef()
		mt := x.Type().Underlying().(*types.Map)
		hk, _, ks := st.mapKeys(mt)
		arr := st.heapGet(st.heap, hk, ArrS(SInt, ArrS(ks, SBool)), false)
		st.heapSet(hk, Store(arr, r, App(ArrS(ks, SBool), fmt.Sprintf("(as const %s)", sortStr(ArrS(ks, SBool))), TFalse)))
		fr.vals[x] = r
	case *ssa.MakeChan:
		r := st.allocRef()
		st.ghostSet("closed", []*Term{r}, TFalse)
		fr.vals[x] = r
	case *ssa.Slice:
		fr.vals[x] = st.sliceOp(fr, x)
	case *ssa.Lookup:
		st.lookup(fr, x)
	case *ssa.MapUpdate:
		mt := x.Map.Type().Underlying().(*types.Map)
		m := st.scalar(st.val(fr, x.Map))
		st.panicAt(fr, x, "nil-map", Neq(m, IntLit(0)))
		k := st.scalar(st.val(fr, x.Key))
		st.mapUpdateInRange(fr, x, mt, m, k)
		st.mapSet(mt, m, k, st.val(fr, x.Value))
	case *ssa.Range:
		xv := st.val(fr, x.X)
		if mt, ok := x.X.Type().Underlying().(*types.Map); ok {
			vs := st.fresh("visited", ArrS(st.e.leaves(mt.Key())[0].Sort, SBool))
			st.assume(Eq(vs, App(vs.Sort, fmt.Sprintf("(as const %s)", sortStr(vs.Sort)), TFalse)))
			fr.vals[x] = &MapIterV{Map: st.scalar(xv), KeyT: mt.Key(), ValT: mt.Elem(), Visited: vs.S}
		} else {
			// string range
			pos := st.fresh("strpos", SInt)
			st.assume(Eq(pos, IntLit(0)))
			fr.vals[x] = &MapIterV{IsStr: true, Str: st.scalar(xv), Pos: pos.S}
		}
	case *ssa.Next:
		st.execNext(fr, x)
	case *ssa.Select:
		st.execSelect(fr, x)
	case *ssa.Send:
		// a send is recorded in the ghost history chan_sent (scalar elements only); blocking is not modelled
		st.chanRecord("chan_sent", st.scalar(st.val(fr, x.Chan)), st.val(fr, x.X), TTrue)
		st.events = append(st.events, "send")
	default:
		st.unsupported("instruction %T not supported", in)
	}
	return false
}

func (st *State) strAt(s, i *Term) *Term {
	if nativeStrings {
		return App(SInt, "str.to_code", App(SStr, "str.at", s, i))
	}
	f := st.declareFun("str_at", []Sort{SStr, SInt}, SInt)
	return App(SInt, f, s, i)
}

func (st *State) zeroElems(sv *SliceV) {
	ls := st.e.leaves(sv.Elem)
	for _, l := range ls {
		key := "E|" + typeKey(sv.Elem) + "|" + l.Path
		s := ArrS(SInt, ArrS(SInt, l.Sort))
		arr := st.heapGet(st.heap, key, s, l.IsRef)
		var z *Term
		switch l.Sort {
		case SBool:
			z = TFalse
		case SStr:
			// (as const ...) needs a value; elements of a fresh string array are left unconstrained
			// (weaker than Go's zero initialisation, hence sound)
			inner := st.fresh("strarr", ArrS(SInt, SStr))
			st.heapSetInner(key, arr, sv.Base, inner)
			continue
		case SReal:
			z = RealLit(0)
		default:
			z = IntLit(0)
		}
		inner := ArrS(SInt, l.Sort)
		st.heapSetInner(key, arr, sv.Base, App(inner, fmt.Sprintf("(as const %s)", sortStr(inner)), z))
	}
}

func (st *State) execUnOp(fr *Frame, x *ssa.UnOp) bool {
	v := st.val(fr, x.X)
	switch x.Op {
	case token.MUL: // load
		if h, ok := v.(*EntH); ok {
			fr.vals[x] = h
			return false
		}
		pt := x.X.Type().Underlying().(*types.Pointer).Elem()
		if t, ok := v.(*Term); ok {
			st.panicAt(fr, x, "nil-deref", Neq(t, IntLit(0)))
		}
		a := st.ptrAddr(v, pt)
		defer st.rangeAssume(fr, x)
		if a.Kind == "global" {
			if c, ok := globalConst(st, a); ok {
				fr.vals[x] = c
				return false
			}
		}
		fr.vals[x] = st.load(st.heap, a)
	case token.NOT:
		fr.vals[x] = Not(st.scalar(v))
	case token.SUB:
		t := st.scalar(v)
		if t.Sort == SReal {
			fr.vals[x] = App(SReal, "-", t)
		} else {
			fr.vals[x] = Sub(IntLit(0), t)
		}
	case token.ARROW:
		// receive: value unknown; closed channels yield zero values
		ch := st.scalar(v)
		et := x.X.Type().Underlying().(*types.Chan).Elem()
		rv := st.freshVal("recv", et)
		if x.CommaOk {
			okv := st.fresh("recvok", SBool)
			fr.vals[x] = &TupleV{[]SVal{rv, okv}}
			st.chanRecord("chan_recvd", ch, rv, okv)
		} else {
			fr.vals[x] = rv
			st.chanRecord("chan_recvd", ch, rv, TTrue)
		}
		st.events = append(st.events, "recv")
	case token.XOR:
		f := st.declareFun("bit_not", []Sort{SInt}, SInt)
		fr.vals[x] = App(SInt, f, st.scalar(v))
	default:
		st.unsupported("unop %s", x.Op)
	}
	return false
}

// globalConst gives values to well-known read-only globals.
func globalConst(st *State, a *AddrV) (SVal, bool) {
	switch a.Key {
	case "G|github.com/google/uuid.Nil":
		return IntLit(0), true
	}
	// package-level sentinel errors (var ErrX = errors.New(...)) are non-nil, pairwise distinct and never reassigned (assumed)
	if isErrorType(a.Type) {
		name := a.Key[strings.LastIndex(a.Key, ".")+1:]
		if strings.HasPrefix(name, "Err") || a.Key == "G|context.Canceled" || a.Key == "G|context.DeadlineExceeded" {
			id := st.e.typeID("errvar:" + a.Key)
			c := st.declare("errvar!"+sanitize(name), SInt)
			if !st.declared["errvarax:"+a.Key] {
				st.declared["errvarax:"+a.Key] = true
				st.assume(Eq(c, IntLit(int64(900000000+id))))
			}
			return c, true
		}
	}
	return nil, false
}

func (st *State) binop(fr *Frame, in ssa.Instruction, op token.Token, xv, yv SVal, xt types.Type) SVal {
	// interface / struct comparisons
	switch a := xv.(type) {
	case *IfaceV:
		b, ok := yv.(*IfaceV)
		if !ok {
			st.unsupported("binop iface vs %T", yv)
		}
		eq := And(Eq(a.Tag, b.Tag), Eq(a.Val, b.Val))
		if isLitZero(b.Tag) {
			eq = Eq(a.Tag, IntLit(0))
		} else if isLitZero(a.Tag) {
			eq = Eq(b.Tag, IntLit(0))
		}
		if op == token.EQL {
			return eq
		}
		return Not(eq)
	case *SliceV:
		// only comparison with nil
		if op == token.EQL {
			return Eq(a.Base, IntLit(0))
		}
		return Neq(a.Base, IntLit(0))
	case *StructV:
		b := yv.(*StructV)
		fa := st.flatten(a, a.Typ)
		fb := st.flatten(b, a.Typ)
		var cs []*Term
		for i := range fa {
			cs = append(cs, Eq(fa[i], fb[i]))
		}
		if op == token.EQL {
			return And(cs...)
		}
		return Not(And(cs...))
	case *FuncV:
		x := st.scalar(a)
		y := st.scalar(yv)
		if op == token.EQL {
			return Eq(x, y)
		}
		return Neq(x, y)
	}
	if s, ok := yv.(*SliceV); ok {
		_ = s
		st.unsupported("binop scalar vs slice")
	}
	x, y := st.scalar(xv), st.scalar(yv)
	isStr := x.Sort == SStr
	switch op {
	case token.EQL:
		return Eq(x, y)
	case token.NEQ:
		return Neq(x, y)
	case token.LSS, token.LEQ, token.GTR, token.GEQ:
		if isStr {
			f := st.declareFun("str_lt", []Sort{SStr, SStr}, SBool)
			lt := func(a, b *Term) *Term {
				if nativeStrings {
					return App(SBool, "str.<", a, b)
				}
				return App(SBool, f, a, b)
			}
			switch op {
			case token.LSS:
				return lt(x, y)
			case token.GTR:
				return lt(y, x)
			case token.LEQ:
				return Not(lt(y, x))
			default:
				return Not(lt(x, y))
			}
		}
		switch op {
		case token.LSS:
			return Lt(x, y)
		case token.LEQ:
			return Le(x, y)
		case token.GTR:
			return Gt(x, y)
		default:
			return Ge(x, y)
		}
	case token.ADD:
		if isStr {
			return st.strConcat(x, y)
		}
		return st.checkedArith(fr, in, xt, Add(x, y))
	case token.SUB:
		return st.checkedArith(fr, in, xt, Sub(x, y))
	case token.MUL:
		if x.Sort == SInt && x.Lit == nil && y.Lit == nil {
			// nonlinear: keep as is, solvers may answer unknown
		}
		return st.checkedArith(fr, in, xt, Mul(x, y))
	case token.QUO:
		if x.Sort == SReal || y.Sort == SReal {
			return App(SReal, "/", ToReal(x), ToReal(y))
		}
		if in != nil {
			st.panicAt(fr, in, "div-zero", Neq(y, IntLit(0)))
		}
		return st.define("q", App(SInt, "go_div", x, y))
	case token.REM:
		if in != nil {
			st.panicAt(fr, in, "div-zero", Neq(y, IntLit(0)))
		}
		return st.define("r", App(SInt, "go_mod", x, y))
	case token.AND, token.OR, token.XOR, token.SHL, token.SHR, token.AND_NOT:
		if x.Sort == SBool {
			switch op {
			case token.AND:
				return And(x, y)
			case token.OR:
				return Or(x, y)
			case token.XOR:
				return Neq(x, y)
			}
		}
		if yl, ok := y.Lit.(*big.Int); ok && op == token.SHL && yl.IsInt64() && yl.Int64() < 63 {
			return Mul(x, BigLit(new(big.Int).Lsh(big.NewInt(1), uint(yl.Int64()))))
		}
		if yl, ok := y.Lit.(*big.Int); ok && op == token.SHR && yl.IsInt64() && yl.Int64() < 63 {
			return App(SInt, "div", x, BigLit(new(big.Int).Lsh(big.NewInt(1), uint(yl.Int64()))))
		}
		f := st.declareFun("bit_"+op.String(), []Sort{SInt, SInt}, SInt)
		return App(SInt, sym("bit_"+op.String()), x, y)
		_ = f
	}
	st.unsupported("binop %s", op)
	return nil
}

func isLitZero(t *Term) bool {
	b, ok := t.Lit.(*big.Int)
	return ok && b.Sign() == 0
}

// checkedArith adds overflow obligations in "checked" units.
func (st *State) checkedArith(fr *Frame, in ssa.Instruction, t types.Type, r *Term) *Term {
	if !st.u.c.Checked || r.Sort != SInt || in == nil {
		return r
	}
	lo, hi, ok := intRange(t)
	if !ok {
		return r
	}
	r = st.define("ar", r)
	u := st.u
	site := st.siteName(fr, in, "overflow")
	st.e.addObligation(st, u, "nooverflow", "arith", site, And(Ge(r, lo), Le(r, hi)), u.c.Props, "machine arithmetic stays in range", false)
	st.assume(And(Ge(r, lo), Le(r, hi)))
	return r
}

func intRange(t types.Type) (*Term, *Term, bool) {
	b, ok := t.Underlying().(*types.Basic)
	if !ok || b.Info()&types.IsInteger == 0 {
		return nil, nil, false
	}
	bits := 64
	switch b.Kind() {
	case types.Int8, types.Uint8:
		bits = 8
	case types.Int16, types.Uint16:
		bits = 16
	case types.Int32, types.Uint32:
		bits = 32
	}
	if b.Info()&types.IsUnsigned != 0 {
		hi := new(big.Int).Sub(new(big.Int).Lsh(big.NewInt(1), uint(bits)), big.NewInt(1))
		return IntLit(0), BigLit(hi), true
	}
	hi := new(big.Int).Sub(new(big.Int).Lsh(big.NewInt(1), uint(bits-1)), big.NewInt(1))
	lo := new(big.Int).Neg(new(big.Int).Lsh(big.NewInt(1), uint(bits-1)))
	return BigLit(lo), BigLit(hi), true
}

func (st *State) convert(in ssa.Instruction, v SVal, from, to types.Type) SVal {
	fb, fok := from.Underlying().(*types.Basic)
	tb, tok := to.Underlying().(*types.Basic)
	if fok && tok {
		x := st.scalar(v)
		switch {
		case fb.Info()&types.IsInteger != 0 && tb.Info()&types.IsFloat != 0:
			return ToReal(x)
		case fb.Info()&types.IsFloat != 0 && tb.Info()&types.IsInteger != 0:
			// truncation toward zero; in checked units the value must fit the target type
			r := st.define("trunc", st.truncReal(x))
			if st.u.c.Checked && in != nil {
				if lo, hi, ok := intRange(to); ok {
					fr := st.frames[len(st.frames)-1]
					st.e.addObligation(st, st.u, "nooverflow", "float-to-int", st.siteName(fr, in, "convert"), And(Ge(r, lo), Le(r, hi)), st.u.c.Props, "float to integer conversion stays in range", false)
					st.assume(And(Ge(r, lo), Le(r, hi)))
				}
			}
			return r
		case fb.Info()&types.IsInteger != 0 && tb.Info()&types.IsInteger != 0:
			if st.u.c.Checked {
				lo, hi, ok := intRange(to)
				flo, fhi, fok := intRange(from)
				if ok && fok {
					_ = flo
					_ = fhi
					narrowing := true
					if l1, ok1 := lo.Lit.(*big.Int); ok1 {
						if l2, ok2 := flo.Lit.(*big.Int); ok2 {
							h1 := hi.Lit.(*big.Int)
							h2 := fhi.Lit.(*big.Int)
							if l1.Cmp(l2) <= 0 && h1.Cmp(h2) >= 0 {
								narrowing = false
							}
						}
					}
					if narrowing {
						st.assume(And(Ge(x, lo), Le(x, hi))) // narrowing assumed in range unless an explicit obligation is requested
					}
				}
			}
			return x
		case fb.Info()&types.IsString != 0 && tb.Info()&types.IsString != 0:
			return x
		case fb.Info()&types.IsInteger != 0 && tb.Info()&types.IsString != 0:
			f := st.declareFun("str_fromrune", []Sort{SInt}, SStr)
			return App(SStr, f, x)
		case fb.Info()&types.IsFloat != 0 && tb.Info()&types.IsFloat != 0:
			return x
		}
	}
	// string <-> []byte / []rune
	if tok && tb.Info()&types.IsString != 0 {
		if sv, ok := v.(*SliceV); ok {
			f := st.declareFun("str_frombytes", []Sort{SInt, SInt, SInt}, SStr)
			return App(SStr, f, sv.Base, sv.Off, sv.Len)
		}
	}
	if fok && fb.Info()&types.IsString != 0 {
		if sl, ok := to.Underlying().(*types.Slice); ok {
			sv := st.freshVal("bytes", to).(*SliceV)
			st.assume(Neq(sv.Base, IntLit(0)))
			_ = sl
			return sv
		}
	}
	if _, ok := to.Underlying().(*types.Pointer); ok {
		return v
	}
	if tok && tb.Kind() == types.UnsafePointer {
		return v
	}
	if types.Identical(from.Underlying(), to.Underlying()) {
		return v
	}
	st.unsupported("convert %s -> %s", typeKey(from), typeKey(to))
	return nil
}

func (st *State) makeInterface(v SVal, from, to types.Type) SVal {
	if isErrorType(to) {
		// concrete error value boxed into error: a non-nil error id derived from the value
		e := st.fresh("err", SInt)
		st.assume(Gt(e, IntLit(0)))
		return e
	}
	tag := IntLit(int64(st.e.typeID(typeKey(from))))
	var payload *Term
	switch x := v.(type) {
	case *Term:
		if x.Sort == SInt {
			payload = x
		}
	case *AddrV:
		if (x.Kind == "field" || x.Kind == "box") && x.Path == "" {
			payload = x.Base
		}
	}
	if payload == nil {
		// box the value
		r := st.allocRef()
		st.store(&AddrV{Kind: "box", Base: r, Key: "B|" + typeKey(from), Type: from}, v)
		payload = r
	}
	return &IfaceV{Tag: tag, Val: payload, Conc: from, CVal: v}
}

func (st *State) convertIface(v SVal, from, to types.Type) SVal {
	if isErrorType(to) && !isErrorType(from) {
		iv := v.(*IfaceV)
		e := st.fresh("err", SInt)
		st.assume(Eq(Eq(e, IntLit(0)), Eq(iv.Tag, IntLit(0))))
		return e
	}
	if !isErrorType(to) && isErrorType(from) {
		e := st.scalar(v)
		return &IfaceV{Tag: Ite(Eq(e, IntLit(0)), IntLit(0), IntLit(int64(st.e.typeID("error")))), Val: e}
	}
	return v
}

func (st *State) typeAssert(fr *Frame, x *ssa.TypeAssert) bool {
	v := st.val(fr, x.X)
	var tag, val *Term
	var conc types.Type
	var cval SVal
	switch iv := v.(type) {
	case *IfaceV:
		tag, val, conc, cval = iv.Tag, iv.Val, iv.Conc, iv.CVal
	case *Term: // error
		tag, val = Ite(Eq(iv, IntLit(0)), IntLit(0), st.errTag(iv)), iv
	default:
		st.unsupported("TypeAssert on %T", v)
	}
	_, toIface := x.AssertedType.Underlying().(*types.Interface)
	var ok *Term
	var res SVal
	if toIface {
		if conc != nil {
			ok = BoolLit(types.Implements(conc, x.AssertedType.Underlying().(*types.Interface)))
		} else {
			ok = st.fresh("implements", SBool)
			st.assume(Implies(ok, Neq(tag, IntLit(0))))
		}
		if isErrorType(x.AssertedType) {
			res = val
		} else {
			res = &IfaceV{Tag: tag, Val: val, Conc: conc, CVal: cval}
		}
	} else {
		tid := IntLit(int64(st.e.typeID(typeKey(x.AssertedType))))
		if conc != nil {
			ok = BoolLit(types.Identical(conc, x.AssertedType))
			if isTrue(ok) {
				res = cval
			}
		} else {
			ok = Eq(tag, tid)
		}
		if res == nil {
			// unbox
			ls := st.e.leaves(x.AssertedType)
			if _, isPtr := x.AssertedType.Underlying().(*types.Pointer); isPtr || (len(ls) == 1 && ls[0].Sort == SInt) {
				res = val
			} else {
				res = st.load(st.heap, &AddrV{Kind: "box", Base: val, Key: "B|" + typeKey(x.AssertedType), Type: x.AssertedType})
			}
		}
	}
	if _, isPtr := x.AssertedType.Underlying().(*types.Pointer); isPtr && !toIface {
		// an interface never holds a typed nil pointer here (protobuf oneof wrappers, errors): assumed
		if rt, ok2 := res.(*Term); ok2 {
			st.assume(Implies(ok, Neq(rt, IntLit(0))))
		}
	}
	if x.CommaOk {
		fr.vals[x] = &TupleV{[]SVal{res, ok}}
		return false
	}
	st.panicAt(fr, x, "type-assert", ok)
	fr.vals[x] = res
	return false
}

func (st *State) errTag(e *Term) *Term {
	f := st.declareFun("err_tag", []Sort{SInt}, SInt)
	return App(SInt, f, e)
}

func (st *State) sliceOp(fr *Frame, x *ssa.Slice) SVal {
	xv := st.val(fr, x.X)
	var lo, hi *Term
	if x.Low != nil {
		lo = st.scalar(st.val(fr, x.Low))
	} else {
		lo = IntLit(0)
	}
	switch s := xv.(type) {
	case *SliceV:
		if x.High != nil {
			hi = st.scalar(st.val(fr, x.High))
		} else {
			hi = s.Len
		}
		st.panicAt(fr, x, "slice-bounds", And(Ge(lo, IntLit(0)), Le(lo, hi), Le(hi, s.Cap)))
		ncap := Sub(s.Cap, lo)
		if x.Max != nil {
			ncap = Sub(st.scalar(st.val(fr, x.Max)), lo)
		}
		return &SliceV{Base: s.Base, Off: Add(s.Off, lo), Len: Sub(hi, lo), Cap: ncap, Elem: s.Elem}
	case *Term:
		if pt, ok := x.X.Type().Underlying().(*types.Pointer); ok {
			if at, ok := pt.Elem().Underlying().(*types.Array); ok {
				n := IntLit(at.Len())
				if x.High != nil {
					hi = st.scalar(st.val(fr, x.High))
				} else {
					hi = n
				}
				st.panicAt(fr, x, "slice-bounds", And(Ge(lo, IntLit(0)), Le(lo, hi), Le(hi, n)))
				return &SliceV{Base: s, Off: lo, Len: Sub(hi, lo), Cap: Sub(n, lo), Elem: at.Elem()}
			}
		}
		if s.Sort == SStr {
			if x.High != nil {
				hi = st.scalar(st.val(fr, x.High))
			} else {
				hi = st.strLen(s)
			}
			st.panicAt(fr, x, "slice-bounds", And(Ge(lo, IntLit(0)), Le(lo, hi), Le(hi, st.strLen(s))))
			if nativeStrings {
				return App(SStr, "str.substr", s, lo, Sub(hi, lo))
			}
			f := st.declareFun("str_substr", []Sort{SStr, SInt, SInt}, SStr)
			r := App(SStr, f, s, lo, hi)
			st.assume(Eq(st.strLen(r), Sub(hi, lo)))
			return r
		}
	}
	if _, ok := xv.(*AddrV); ok {
		if pt, ok := x.X.Type().Underlying().(*types.Pointer); ok {
			if at, ok := pt.Elem().Underlying().(*types.Array); ok {
				// bytes of an opaque array value (uuid etc.): contents abstracted
				sv := st.freshVal("arrview", types.NewSlice(at.Elem())).(*SliceV)
				st.assume(And(Neq(sv.Base, IntLit(0)), Eq(sv.Len, IntLit(at.Len()))))
				return sv
			}
		}
	}
	st.unsupported("Slice of %T (%s)", xv, x.X.Type())
	return nil
}

func (st *State) lookup(fr *Frame, x *ssa.Lookup) {
	if mt, ok := x.X.Type().Underlying().(*types.Map); ok {
		m := st.scalar(st.val(fr, x.X))
		k := st.scalar(st.val(fr, x.Index))
		has := st.mapHas(st.heap, mt, m, k)
		has = And(Neq(m, IntLit(0)), has)
		got := st.mapGet(st.heap, mt, m, k)
		// absent keys yield the zero value
		zero := st.zeroVal(mt.Elem())
		val := st.iteVal(has, got, zero, mt.Elem())
		if x.CommaOk {
			fr.vals[x] = &TupleV{[]SVal{val, has}}
		} else {
			fr.vals[x] = val
		}
		return
	}
	// string index
	s := st.scalar(st.val(fr, x.X))
	i := st.scalar(st.val(fr, x.Index))
	st.panicAt(fr, x, "index", And(Ge(i, IntLit(0)), Lt(i, st.strLen(s))))
	fr.vals[x] = st.strAt(s, i)
}

func (st *State) iteVal(c *Term, a, b SVal, t types.Type) SVal {
	if isTrue(c) {
		return a
	}
	if isFalse(c) {
		return b
	}
	fa := st.flatten(a, t)
	fb := st.flatten(b, t)
	out := make([]*Term, len(fa))
	for i := range fa {
		out[i] = Ite(c, fa[i], fb[i])
	}
	if len(out) == 0 {
		return a
	}
	return st.unflatten(&out, t)
}

// mapUpdateInRange: a MapUpdate while a range over the same map type is open
// must not insert a new key (so that the range-exit axiom stays valid).
func (st *State) mapUpdateInRange(fr *Frame, x *ssa.MapUpdate, mt *types.Map, m, k *Term) {
	for _, v := range fr.vals {
		if it, ok := v.(*MapIterV); ok && !it.IsStr && types.Identical(it.KeyT, mt.Key()) && types.Identical(it.ValT, mt.Elem()) {
			if st.openIter(fr, it) {
				st.e.addObligation(st, st.u, "maprange", "no-insert", st.siteName(fr, x, "mapupdate"),
					Implies(Eq(m, it.Map), st.mapHas(st.heap, mt, m, k)), st.u.c.Props, "update inside range must not insert", false)
			}
		}
	}
}

func (st *State) openIter(fr *Frame, it *MapIterV) bool {
	// an iterator is open while its loop head is in the opened set
	for b := range st.opened {
		for _, in := range b.Instrs {
			if nx, ok := in.(*ssa.Next); ok {
				if cur, ok := fr.vals[nx.Iter].(*MapIterV); ok && cur.Map.S == it.Map.S {
					return true
				}
			}
		}
	}
	return false
}

func (st *State) execNext(fr *Frame, x *ssa.Next) {
	it, ok := st.val(fr, x.Iter).(*MapIterV)
	if !ok {
		st.unsupported("Next on non-iterator")
	}
	okv := st.fresh("next.ok", SBool)
	if it.IsStr {
		pos := Const(it.Pos, SInt)
		ln := st.strLen(it.Str)
		st.assume(Eq(okv, Lt(pos, ln)))
		r := st.fresh("rune", SInt)
		w := st.runeW(it.Str, pos)
		st.assume(And(Ge(w, IntLit(1)), Le(w, IntLit(4)), Ge(r, IntLit(0))))
		st.assume(Implies(okv, Le(Add(pos, w), ln)))
		st.assume(Implies(okv, Eq(r, st.runeAt(it.Str, pos))))
		np := st.fresh("strpos", SInt)
		st.assume(Eq(np, Ite(okv, Add(pos, w), pos)))
		nit := *it
		nit.Pos = np.S
		fr.vals[x.Iter] = &nit
		fr.vals[x] = &TupleV{[]SVal{okv, pos, r}}
		return
	}
	mt := types.NewMap(it.KeyT, it.ValT)
	ks := st.e.leaves(it.KeyT)[0].Sort
	k := st.fresh("next.k", ks)
	vis := Const(it.Visited, ArrS(ks, SBool))
	// ok: k is a present, not yet visited key
	st.assume(Implies(okv, And(st.mapHas(st.heap, mt, it.Map, k), Not(Select(vis, k)), Neq(it.Map, IntLit(0)))))
	// !ok: all present keys have been visited
	q := Const("k!q", ks)
	st.assume(Implies(Not(okv), Forall([]*Term{q}, Implies(And(Neq(it.Map, IntLit(0)), st.mapHas(st.heap, mt, it.Map, q)), Select(vis, q)))))
	nv := st.fresh("visited", vis.Sort)
	st.assume(Eq(nv, Ite(okv, Store(vis, k, TTrue), vis)))
	nit := *it
	nit.Visited = nv.S
	fr.vals[x.Iter] = &nit
	v := st.mapGet(st.heap, mt, it.Map, k)
	fr.vals[x] = &TupleV{[]SVal{okv, k, v}}
}

// runeW: the width in bytes of the rune that range-over-string decodes at byte position pos of s
func (st *State) runeW(s, pos *Term) *Term {
	f := st.declareFun("str_runew", []Sort{SStr, SInt}, SInt)
	return App(SInt, f, s, pos)
}

// runeStart: byte position p of s is where range-over-string starts decoding a rune (or the end of s).
// The axioms are the facts about UTF-8 decoding the iteration relies on (assumed of the Go runtime).
func (st *State) runeStart(s, p *Term) *Term {
	f := st.declareFun("str_runestart", []Sort{SStr, SInt}, SBool)
	if !st.declared["axiom:runestart"] {
		st.declared["axiom:runestart"] = true
		x, q, q2 := Const("s!qrs", SStr), Const("p!qrs", SInt), Const("q!qrs", SInt)
		rs := func(a, b *Term) *Term { return App(SBool, f, a, b) }
		st.assume(Forall([]*Term{x}, rs(x, IntLit(0)), st.strLen(x)))
		w := st.runeW(x, q)
		st.assume(Forall([]*Term{x, q}, Implies(rs(x, q), And(Ge(q, IntLit(0)), Le(q, st.strLen(x)),
			Implies(Lt(q, st.strLen(x)), And(Ge(w, IntLit(1)), Le(w, IntLit(4)), Le(Add(q, w), st.strLen(x)), rs(x, Add(q, w)))))), rs(x, q)))
		st.assume(Forall([]*Term{x, q, q2}, Implies(And(rs(x, q), Lt(q, q2), Lt(q2, Add(q, w)), Lt(q, st.strLen(x))), Not(rs(x, q2))), rs(x, q), rs(x, q2)))
	}
	return App(SBool, f, s, p)
}

func (st *State) runeAt(s, pos *Term) *Term {
	if nativeStrings {
		return App(SInt, "str.to_code", App(SStr, "str.at", s, pos))
	}
	f := st.declareFun("str_runeat", []Sort{SStr, SInt}, SInt)
	return App(SInt, f, s, pos)
}

func (st *State) execSelect(fr *Frame, x *ssa.Select) {
	// nondeterministic choice among the cases (and default when non-blocking)
	n := len(x.States)
	idx := st.fresh("select.idx", SInt)
	lo := IntLit(0)
	if !x.Blocking {
		lo = IntLit(-1)
	}
	st.assume(And(Ge(idx, lo), Lt(idx, IntLit(int64(n)))))
	vs := []SVal{idx, st.fresh("select.ok", SBool)}
	for i, s := range x.States {
		chosen := Eq(idx, IntLit(int64(i)))
		if s.Dir == types.RecvOnly {
			rv := st.freshVal("select.recv", s.Chan.Type().Underlying().(*types.Chan).Elem())
			vs = append(vs, rv)
			cht := st.scalar(st.val(fr, s.Chan))
			st.chanRecord("chan_recvd", cht, rv, chosen)
			if strings.HasPrefix(cht.S, "(ctx_done_chan ") {
				cur := st.ghostGet(st.heap, "ctx_done_seen", []*Term{cht}, SBool)
				st.ghostSet("ctx_done_seen", []*Term{cht}, Or(cur, chosen))
			}
		} else if s.Send != nil {
			st.chanRecord("chan_sent", st.scalar(st.val(fr, s.Chan)), st.val(fr, s.Send), chosen)
		}
	}
	fr.vals[x] = &TupleV{vs}
	st.events = append(st.events, "select")
}

// chanRecord adds (ch, v) to the ghost relation name when cond holds (values of sort Int only).
func (st *State) chanRecord(name string, ch *Term, v SVal, cond *Term) {
	t, ok := v.(*Term)
	if !ok || t.Sort != SInt || isFalse(cond) {
		return
	}
	cur := st.ghostGet(st.heap, name, []*Term{ch, t}, SBool)
	st.ghostSet(name, []*Term{ch, t}, Or(cur, cond))
}

// ghost arrays ----------------------------------------------------------------

func (st *State) ghostKey(name string) string { return "S|" + name }

func (st *State) ghostArr(h *HeapView, name string, nargs int, res Sort) *Term {
	s := res
	for i := 0; i < nargs; i++ {
		s = ArrS(SInt, s)
	}
	return st.heapGet(h, st.ghostKey(name), s, false)
}

func (st *State) ghostGet(h *HeapView, name string, args []*Term, res Sort) *Term {
	arr := st.ghostArr(h, name, len(args), res)
	for _, a := range args {
		arr = Select(arr, a)
	}
	return arr
}

func (st *State) ghostSet(name string, args []*Term, v *Term) {
	arr := st.ghostArr(st.heap, name, len(args), v.Sort)
	st.heapSet(st.ghostKey(name), nestedStore(arr, args, v))
}

func nestedStore(arr *Term, idx []*Term, v *Term) *Term {
	if len(idx) == 0 {
		return v
	}
	if len(idx) == 1 {
		return Store(arr, idx[0], v)
	}
	return Store(arr, idx[0], nestedStore(Select(arr, idx[0]), idx[1:], v))
}

// rangeAssume: in checked units a loaded value of a sized integer type lies in its type's range.
func (st *State) rangeAssume(fr *Frame, x ssa.Value) {
	if !st.u.c.Checked {
		return
	}
	t, ok := fr.vals[x].(*Term)
	if !ok || t.Sort != SInt {
		return
	}
	if lo, hi, ok := intRange(x.Type()); ok {
		st.assume(And(Ge(t, lo), Le(t, hi)))
	}
}
