package main

import (
	"fmt"
	"strings"
	"unicode"
)

// Expr is the AST of the contract expression language (Gobra-flavoured Go
// expressions plus old(), forall/exists, ==>, <==>).
type Expr struct {
	Kind  string // ident int real str bool nil unary binary call field index old forall exists
	Name  string // ident name, field name, call target, literal text
	Op    string
	Args  []*Expr
	Vars  []QVar
	Pats  []*Expr
	AltPats [][]*Expr
	Label string // old@label
}

type QVar struct{ Name, Type string }

func (e *Expr) String() string {
	switch e.Kind {
	case "ident", "int", "real", "bool", "nil":
		return e.Name
	case "str":
		return fmt.Sprintf("%q", e.Name)
	case "unary":
		return e.Op + e.Args[0].String()
	case "binary":
		return "(" + e.Args[0].String() + " " + e.Op + " " + e.Args[1].String() + ")"
	case "call":
		var as []string
		for _, a := range e.Args {
			as = append(as, a.String())
		}
		return e.Name + "(" + strings.Join(as, ", ") + ")"
	case "field":
		return e.Args[0].String() + "." + e.Name
	case "index":
		return e.Args[0].String() + "[" + e.Args[1].String() + "]"
	case "old":
		return "old(" + e.Args[0].String() + ")"
	case "entry":
		return "entry(" + e.Args[0].String() + ")"
	case "forall", "exists":
		var vs []string
		for _, v := range e.Vars {
			vs = append(vs, v.Name+" "+v.Type)
		}
		return "(" + e.Kind + " " + strings.Join(vs, ", ") + " :: " + e.Args[0].String() + ")"
	}
	return "?"
}

type tok struct {
	kind string // id num str op eof
	text string
}

func lexExpr(s string) ([]tok, error) {
	var toks []tok
	i := 0
	for i < len(s) {
		c := rune(s[i])
		switch {
		case unicode.IsSpace(c):
			i++
		case unicode.IsLetter(c) || c == '_':
			j := i
			for j < len(s) && (unicode.IsLetter(rune(s[j])) || unicode.IsDigit(rune(s[j])) || s[j] == '_' || s[j] == '$') {
				j++
			}
			toks = append(toks, tok{"id", s[i:j]})
			i = j
		case unicode.IsDigit(c):
			j := i
			for j < len(s) && (unicode.IsDigit(rune(s[j])) || s[j] == '.' || s[j] == '_') {
				j++
			}
			toks = append(toks, tok{"num", strings.ReplaceAll(s[i:j], "_", "")})
			i = j
		case c == '"':
			j := i + 1
			var b strings.Builder
			for j < len(s) && s[j] != '"' {
				if s[j] == '\\' && j+1 < len(s) {
					j++
					switch s[j] {
					case 'n':
						b.WriteByte('\n')
					case 't':
						b.WriteByte('\t')
					default:
						b.WriteByte(s[j])
					}
				} else {
					b.WriteByte(s[j])
				}
				j++
			}
			if j >= len(s) {
				return nil, fmt.Errorf("unterminated string in %q", s)
			}
			toks = append(toks, tok{"str", b.String()})
			i = j + 1
		default:
			ops := []string{"<==>", "==>", "::", "&&", "||", "==", "!=", "<=", ">=", "(", ")", "[", "]", "{", "}", ",", ".", "+", "-", "*", "/", "%", "<", ">", "!", ":", "@"}
			matched := false
			for _, op := range ops {
				if strings.HasPrefix(s[i:], op) {
					toks = append(toks, tok{"op", op})
					i += len(op)
					matched = true
					break
				}
			}
			if !matched {
				return nil, fmt.Errorf("unexpected character %q in %q", c, s)
			}
		}
	}
	toks = append(toks, tok{"eof", ""})
	return toks, nil
}

type exprParser struct {
	toks []tok
	pos  int
	src  string
}

func parseExpr(src string) (e *Expr, err error) {
	toks, err := lexExpr(src)
	if err != nil {
		return nil, err
	}
	p := &exprParser{toks: toks, src: src}
	defer func() {
		if r := recover(); r != nil {
			if pe, ok := r.(parseErr); ok {
				err = fmt.Errorf("%s in %q", string(pe), src)
				return
			}
			panic(r)
		}
	}()
	e = p.parseTop()
	if p.peek().kind != "eof" {
		p.fail("trailing tokens at %q", p.peek().text)
	}
	return e, nil
}

type parseErr string

func (p *exprParser) fail(f string, a ...any) { panic(parseErr(fmt.Sprintf(f, a...))) }
func (p *exprParser) peek() tok            { return p.toks[p.pos] }
func (p *exprParser) next() tok            { t := p.toks[p.pos]; p.pos++; return t }
func (p *exprParser) isOp(op string) bool    { t := p.peek(); return t.kind == "op" && t.text == op }
func (p *exprParser) expectOp(op string) {
	if !p.isOp(op) {
		p.fail("expected %q, got %q", op, p.peek().text)
	}
	p.pos++
}

func (p *exprParser) parseTop() *Expr { return p.parseIff() }

func (p *exprParser) parseQuant() *Expr {
	kind := p.next().text
	var vars []QVar
	for {
		nameTok := p.next()
		if nameTok.kind != "id" {
			p.fail("expected variable name in %s", kind)
		}
		// type: tokens up to ',' or '::' at bracket depth 0
		var ty strings.Builder
		depth := 0
		for {
			t := p.peek()
			if t.kind == "eof" {
				p.fail("unterminated quantifier")
			}
			if t.kind == "op" && depth == 0 && (t.text == "," || t.text == "::") {
				break
			}
			if t.kind == "op" && (t.text == "[" || t.text == "(") {
				depth++
			}
			if t.kind == "op" && (t.text == "]" || t.text == ")") {
				depth--
			}
			ty.WriteString(t.text)
			p.pos++
		}
		vars = append(vars, QVar{nameTok.text, ty.String()})
		if p.isOp(",") {
			p.pos++
			continue
		}
		break
	}
	p.expectOp("::")
	// triggers: {a, b} is one multi-pattern; {a} {b} are alternative patterns
	var pats []*Expr
	var groups [][]*Expr
	for p.isOp("{") {
		p.pos++
		var g []*Expr
		for {
			g = append(g, p.parseIff())
			if p.isOp(",") {
				p.pos++
				continue
			}
			break
		}
		p.expectOp("}")
		groups = append(groups, g)
	}
	if len(groups) > 0 {
		pats = groups[0]
	}
	body := p.parseIff()
	e := &Expr{Kind: kind, Vars: vars, Args: []*Expr{body}, Pats: pats}
	if len(groups) > 1 {
		e.AltPats = groups[1:]
	}
	return e
}

func (p *exprParser) parseIff() *Expr {
	l := p.parseImplies()
	for p.isOp("<==>") {
		p.pos++
		r := p.parseImplies()
		l = &Expr{Kind: "binary", Op: "<==>", Args: []*Expr{l, r}}
	}
	return l
}

func (p *exprParser) parseImplies() *Expr {
	l := p.parseOr()
	if p.isOp("==>") {
		p.pos++
		r := p.parseImplies()
		return &Expr{Kind: "binary", Op: "==>", Args: []*Expr{l, r}}
	}
	return l
}

func (p *exprParser) parseOr() *Expr {
	l := p.parseAnd()
	for p.isOp("||") {
		p.pos++
		r := p.parseAnd()
		l = &Expr{Kind: "binary", Op: "||", Args: []*Expr{l, r}}
	}
	return l
}

func (p *exprParser) parseAnd() *Expr {
	l := p.parseCmp()
	for p.isOp("&&") {
		p.pos++
		r := p.parseCmp()
		l = &Expr{Kind: "binary", Op: "&&", Args: []*Expr{l, r}}
	}
	return l
}

func (p *exprParser) parseCmp() *Expr {
	l := p.parseAdd()
	for {
		t := p.peek()
		if t.kind == "op" && (t.text == "==" || t.text == "!=" || t.text == "<" || t.text == "<=" || t.text == ">" || t.text == ">=") {
			p.pos++
			r := p.parseAdd()
			l = &Expr{Kind: "binary", Op: t.text, Args: []*Expr{l, r}}
			continue
		}
		return l
	}
}

func (p *exprParser) parseAdd() *Expr {
	l := p.parseMul()
	for p.isOp("+") || p.isOp("-") {
		op := p.next().text
		r := p.parseMul()
		l = &Expr{Kind: "binary", Op: op, Args: []*Expr{l, r}}
	}
	return l
}

func (p *exprParser) parseMul() *Expr {
	l := p.parseUnary()
	for p.isOp("*") || p.isOp("/") || p.isOp("%") {
		op := p.next().text
		r := p.parseUnary()
		l = &Expr{Kind: "binary", Op: op, Args: []*Expr{l, r}}
	}
	return l
}

func (p *exprParser) parseUnary() *Expr {
	if p.isOp("!") || p.isOp("-") {
		op := p.next().text
		x := p.parseUnary()
		return &Expr{Kind: "unary", Op: op, Args: []*Expr{x}}
	}
	return p.parsePostfix()
}

func (p *exprParser) parsePostfix() *Expr {
	e := p.parsePrimary()
	for {
		switch {
		case p.isOp("."):
			p.pos++
			t := p.next()
			if t.kind != "id" {
				p.fail("expected field name after '.'")
			}
			e = &Expr{Kind: "field", Name: t.text, Args: []*Expr{e}}
		case p.isOp("["):
			p.pos++
			idx := p.parseTop()
			p.expectOp("]")
			e = &Expr{Kind: "index", Args: []*Expr{e, idx}}
		case p.isOp("(") && (e.Kind == "ident" || e.Kind == "field"):
			p.pos++
			var args []*Expr
			if !p.isOp(")") {
				for {
					args = append(args, p.parseTop())
					if p.isOp(",") {
						p.pos++
						continue
					}
					break
				}
			}
			p.expectOp(")")
			name := e.Name
			if e.Kind == "field" {
				name = e.Args[0].String() + "." + e.Name
			}
			if name == "old" {
				if len(args) != 1 {
					p.fail("old() takes one argument")
				}
				e = &Expr{Kind: "old", Args: args}
			} else if name == "entry" && len(args) == 1 {
				e = &Expr{Kind: "entry", Args: args}
			} else {
				e = &Expr{Kind: "call", Name: name, Args: args}
			}
		default:
			return e
		}
	}
}

func (p *exprParser) parsePrimary() *Expr {
	t := p.peek()
	switch t.kind {
	case "id":
		if t.text == "forall" || t.text == "exists" {
			return p.parseQuant()
		}
		p.pos++
		switch t.text {
		case "true", "false":
			return &Expr{Kind: "bool", Name: t.text}
		case "nil":
			return &Expr{Kind: "nil", Name: "nil"}
		}
		return &Expr{Kind: "ident", Name: t.text}
	case "num":
		p.pos++
		if strings.Contains(t.text, ".") {
			return &Expr{Kind: "real", Name: t.text}
		}
		return &Expr{Kind: "int", Name: t.text}
	case "str":
		p.pos++
		return &Expr{Kind: "str", Name: t.text}
	case "op":
		if t.text == "(" {
			p.pos++
			e := p.parseTop()
			p.expectOp(")")
			return e
		}
	}
	p.fail("unexpected token %q", t.text)
	return nil
}
