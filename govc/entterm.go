package main

import (
	"fmt"
	"go/types"
	"reflect"
	"strings"

	"golang.org/x/tools/go/ssa"
)

// bulkV is a CreateBulk builder: a table and the slice of create builders.
type bulkV struct {
	Table *entTable
	Items *SliceV
}

// heapUpdateQ installs a new version N of array key with  forall r. N[r] = f(r, old[r]).
func (st *State) heapUpdateQ(key string, s Sort, isRef bool, f func(r, old *Term) *Term) {
	old := st.heapGet(st.heap, key, s, isRef)
	st.nver[key]++
	name := fmt.Sprintf("%s#%d", key, st.nver[key])
	n := st.declare(name, s)
	idx, _ := s.ArrayParts()
	st.n++
	r := Const(fmt.Sprintf("r!u%d", st.n), idx)
	st.assume(Forall([]*Term{r}, Eq(Select(n, r), f(r, Select(old, r))), Select(n, r)))
	st.heap.vers[key] = n
}

func (st *State) clockNow() *Term {
	t := st.fresh("now", SInt)
	if last, ok := st.ghostObj["clock"].(*Term); ok {
		st.assume(Ge(t, last))
	} else {
		st.assume(Gt(t, IntLit(0)))
	}
	st.ghostObj["clock"] = t
	reads, _ := st.ghostObj["clockreads"].([]*Term)
	st.ghostObj["clockreads"] = append(append([]*Term(nil), reads...), t)
	return t
}

// entFail forks the path in which the storage call fails (C09 fault model: any
// statement may fail). No table changes; ghost dbfailed is set.
func (st *State) entFail(results *types.Tuple, k func(st *State, res SVal)) {
	if st.u.c.Options["storage"] == "reliable" {
		return
	}
	st2 := st.clone()
	e := st2.newErr("dberr")
	st2.assume(App(SBool, st2.declareFun("err_is_dbfailure", []Sort{SInt}, SBool), e))
	st2.assume(Not(st2.errIs("notfound", e)))
	st2.assume(Not(st2.errIs("notsingular", e)))
	st2.assume(Not(st2.errIs("constraint", e)))
	st2.ghostSet("dbfailed", nil, TTrue)
	st2.tr("dbfail")
	k(st2, st2.resultWithErr(results, e, nil))
}

// resultWithErr builds the (value, err) result of a terminal: zero value plus error, or value plus nil.
func (st *State) resultWithErr(results *types.Tuple, err *Term, val SVal) SVal {
	switch results.Len() {
	case 1:
		if isErrorType(results.At(0).Type()) {
			return err
		}
		return val
	case 2:
		if val == nil {
			val = st.zeroVal(results.At(0).Type())
		}
		return &TupleV{[]SVal{val, err}}
	}
	return nil
}

func (st *State) entNotFound(results *types.Tuple, cond *Term, k func(st *State, res SVal)) {
	st2 := st.clone()
	st2.assume(cond)
	e := st2.newErr("nferr")
	st2.assume(st2.errIs("notfound", e))
	st2.assume(Not(st2.errIs("notsingular", e)))
	st2.assume(Not(App(SBool, st2.declareFun("err_is_dbfailure", []Sort{SInt}, SBool), e)))
	st2.tr("notfound")
	k(st2, st2.resultWithErr(results, e, nil))
}

func (st *State) stmt() {
	st.world().stmts++
}

// selFormula: selection predicate of a builder for row x (evaluated in view h).
func (st *State) selFormula(h *HeapView, b *entBuilder, x *Term) *Term {
	if b.OneID != nil {
		cs := []*Term{st.rowLive(h, b.Table, x), Eq(x, b.OneID)}
		for _, p := range b.Preds {
			cs = append(cs, st.predTV(h, b.Table, p, x).T)
		}
		return And(cs...)
	}
	return st.where(h, b.Table, b.Preds, x)
}

func (st *State) orderKey(h *HeapView, b *entBuilder, x *Term) (*Term, bool, bool) {
	if len(b.Order) == 0 {
		return nil, false, false
	}
	if len(b.Order) > 1 {
		st.unsupported("ent: ordering by several columns")
	}
	return st.colGet(h, b.Table, b.Order[0].Col, x), b.Order[0].Desc, true
}

// entTerminal executes a query/update/delete terminal.
func (st *State) entTerminal(fr *Frame, in ssa.CallInstruction, callee *ssa.Function, h *EntH, name string, args []SVal, k func(st *State, res SVal)) {
	b := st.builder(h)
	t := b.Table
	results := callee.Signature.Results()
	st.stmt()
	name = strings.TrimSuffix(name, "X")
	st.e.note(st.u.name, "intrinsic", "ent "+t.Entity+" "+b.Kind+"."+name)
	switch b.Kind {
	case "query":
		switch name {
		case "All", "IDs":
			st.entFail(results, k)
			rows, n := st.queryRows(b)
			var res SVal
			if name == "All" {
				res = st.mkEntities(t, b, rows, n)
			} else {
				res = st.mkArraySlice(results.At(0).Type().Underlying().(*types.Slice).Elem(), rows, n)
			}
			k(st, st.resultWithErr(results, IntLit(0), res))
		case "Only", "First", "OnlyID", "FirstID":
			st.entFail(results, k)
			x := st.qv("x")
			none := Forall([]*Term{x}, Not(st.selFormula(st.heap, b, x)))
			st.entNotFound(results, none, k)
			if strings.HasPrefix(name, "Only") && b.OneID == nil {
				// not singular
				st2 := st.clone()
				x1, x2 := st2.fresh("ns1", SInt), st2.fresh("ns2", SInt)
				st2.assume(And(st2.selFormula(st2.heap, b, x1), st2.selFormula(st2.heap, b, x2), Neq(x1, x2)))
				e := st2.newErr("nserr")
				st2.assume(st2.errIs("notsingular", e))
				st2.assume(Not(st2.errIs("notfound", e)))
				st2.tr("notsingular")
				k(st2, st2.resultWithErr(results, e, nil))
			}
			r := st.fresh("row", SInt)
			st.assume(st.selFormula(st.heap, b, r))
			y := st.qv("y")
			if strings.HasPrefix(name, "Only") {
				st.assume(Forall([]*Term{y}, Implies(st.selFormula(st.heap, b, y), Eq(y, r))))
			} else if key, desc, ok := st.orderKey(st.heap, b, r); ok {
				ky, _, _ := st.orderKey(st.heap, b, y)
				cmpT := func(a, c *Term) *Term {
					if a.Sort == SStr {
						return App(SBool, st.declareFun("str_le", []Sort{SStr, SStr}, SBool), a, c)
					}
					return Le(a, c)
				}
				if desc {
					st.assume(Forall([]*Term{y}, Implies(st.selFormula(st.heap, b, y), cmpT(ky, key))))
				} else {
					st.assume(Forall([]*Term{y}, Implies(st.selFormula(st.heap, b, y), cmpT(key, ky))))
				}
			}
			var res SVal
			if strings.HasSuffix(name, "ID") {
				res = r
			} else {
				res = st.mkEntity(t, b, r)
			}
			k(st, st.resultWithErr(results, IntLit(0), res))
		case "Count":
			st.entFail(results, k)
			n := st.fresh("count", SInt)
			x := st.qv("x")
			st.assume(Ge(n, IntLit(0)))
			st.assume(Eq(Eq(n, IntLit(0)), Forall([]*Term{x}, Not(st.selFormula(st.heap, b, x)))))
			k(st, st.resultWithErr(results, IntLit(0), n))
		case "Exist":
			st.entFail(results, k)
			ex := st.fresh("exist", SBool)
			x := st.qv("x")
			st.assume(Eq(ex, Exists([]*Term{x}, st.selFormula(st.heap, b, x))))
			k(st, st.resultWithErr(results, IntLit(0), ex))
		case "Scan":
			st.entFail(results, k)
			st.scanInto(b, args[len(args)-1], callee.Params[len(callee.Params)-1].Type())
			k(st, IntLit(0))
		default:
			st.unsupported("ent: query terminal %s is not modelled", name)
		}
	case "update":
		switch name {
		case "Save", "Exec":
			st.entFail(results, k)
			if b.OneID != nil {
				st.entNotFound(results, Not(st.rowLive(st.heap, t, b.OneID)), k)
				st.assume(st.rowLive(st.heap, t, b.OneID))
			}
			pre := st.snapshot()
			st.hookRejectUpdate(pre, h, results, k)
			st.applyUpdate(pre, b)
			var res SVal
			if results.Len() == 2 {
				if _, isPtr := results.At(0).Type().Underlying().(*types.Pointer); isPtr {
					res = st.mkEntity(t, &entBuilder{Table: t}, b.OneID)
				} else {
					n := st.fresh("affected", SInt)
					x := st.qv("x")
					st.assume(Ge(n, IntLit(0)))
					st.assume(Eq(Eq(n, IntLit(0)), Forall([]*Term{x}, Not(st.selFormula(pre, b, x)))))
					res = n
				}
			}
			k(st, st.resultWithErr(results, IntLit(0), res))
		default:
			st.unsupported("ent: update terminal %s is not modelled", name)
		}
	case "delete":
		switch name {
		case "Exec":
			st.entFail(results, k)
			if b.OneID != nil {
				st.entNotFound(results, Not(st.rowLive(st.heap, t, b.OneID)), k)
				st.assume(st.rowLive(st.heap, t, b.OneID))
			}
			pre := st.snapshot()
			st.applyDelete(pre, b)
			var res SVal
			if results.Len() == 2 {
				n := st.fresh("deleted", SInt)
				x := st.qv("x")
				st.assume(Ge(n, IntLit(0)))
				st.assume(Eq(Eq(n, IntLit(0)), Forall([]*Term{x}, Not(st.selFormula(pre, b, x)))))
				if b.Limit != nil {
					st.assume(Le(n, b.Limit))
				}
				res = n
			}
			k(st, st.resultWithErr(results, IntLit(0), res))
		default:
			st.unsupported("ent: delete terminal %s is not modelled", name)
		}
	}
}

func (st *State) qv(prefix string) *Term {
	st.n++
	return Const(fmt.Sprintf("%s!q%d", prefix, st.n), SInt)
}

// queryRows introduces the result sequence of a query: rows[0..n) with the
// facts of DESIGN 2.7.3 (soundness, no duplicates, completeness, limit, order).
func (st *State) queryRows(b *entBuilder) (rows *Term, n *Term) {
	h := st.heap
	rows = st.fresh("rows", ArrS(SInt, SInt))
	pos := st.fresh("pos", ArrS(SInt, SInt))
	st.ghostObj["lastpos"] = pos
	n = st.fresh("n", SInt)
	st.assume(Ge(n, IntLit(0)))
	i := st.qv("i")
	inRange := func(i *Term) *Term { return And(Ge(i, IntLit(0)), Lt(i, n)) }
	ri := Select(rows, i)
	st.assume(Forall([]*Term{i}, Implies(inRange(i), And(st.selFormula(h, b, ri), Eq(Select(pos, ri), i))), ri))
	x := st.qv("x")
	complete := Forall([]*Term{x}, Implies(st.selFormula(h, b, x), And(inRange(Select(pos, x)), Eq(Select(rows, Select(pos, x)), x))), st.rowLive(h, b.Table, x))
	if b.Limit != nil {
		// a negative LIMIT means "no limit" (SQLite); PostgreSQL rejects it (covered by the failure path)
		st.assume(Implies(Ge(b.Limit, IntLit(0)), Le(n, b.Limit)))
		st.assume(Implies(Or(Lt(n, b.Limit), Lt(b.Limit, IntLit(0))), complete))
	} else {
		st.assume(complete)
	}
	if len(b.Order) > 0 {
		j := st.qv("j")
		ki, desc, _ := st.orderKey(h, b, ri)
		kj, _, _ := st.orderKey(h, b, Select(rows, j))
		le := func(a, c *Term) *Term {
			if a.Sort == SStr {
				// lexicographic order on strings: an uninterpreted total preorder
				f := st.declareFun("str_le", []Sort{SStr, SStr}, SBool)
				if desc {
					return App(SBool, f, c, a)
				}
				return App(SBool, f, a, c)
			}
			if desc {
				return Ge(a, c)
			}
			return Le(a, c)
		}
		st.assume(Forall([]*Term{i, j}, Implies(And(inRange(i), inRange(j), Lt(i, j)), le(ki, kj))))
		if b.Limit != nil {
			kx, _, _ := st.orderKey(h, b, x)
			inRes := And(inRange(Select(pos, x)), Eq(Select(rows, Select(pos, x)), x))
			st.assume(Forall([]*Term{x, i}, Implies(And(st.selFormula(h, b, x), Not(inRes), inRange(i)), le(ki, kx))))
		}
	}
	return rows, n
}

// mkArraySlice allocates a slice whose backing store is exactly the given array (no quantifier needed).
func (st *State) mkArraySlice(elem types.Type, arr *Term, n *Term) *SliceV {
	base := st.allocRef()
	ls := st.e.leaves(elem)
	if len(ls) != 1 {
		st.unsupported("ent: column slice of non-scalar element %s", typeKey(elem))
	}
	key := "E|" + typeKey(elem) + "|"
	s := ArrS(SInt, ArrS(SInt, ls[0].Sort))
	cur := st.heapGet(st.heap, key, s, ls[0].IsRef)
	st.heapSetInner(key, cur, base, arr)
	return &SliceV{Base: base, Off: IntLit(0), Len: n, Cap: n, Elem: elem}
}

// mkColumnSlice allocates a slice whose i-th element is val(i).
func (st *State) mkColumnSlice(elem types.Type, val func(i *Term) *Term, n *Term) *SliceV {
	base := st.allocRef()
	ls := st.e.leaves(elem)
	if len(ls) != 1 {
		st.unsupported("ent: column slice of non-scalar element %s", typeKey(elem))
	}
	key := "E|" + typeKey(elem) + "|"
	s := ArrS(SInt, ArrS(SInt, ls[0].Sort))
	arr := st.heapGet(st.heap, key, s, ls[0].IsRef)
	inner := st.fresh("col", ArrS(SInt, ls[0].Sort))
	i := st.qv("i")
	st.assume(Forall([]*Term{i}, Implies(And(Ge(i, IntLit(0)), Lt(i, n)), Eq(Select(inner, i), val(i))), Select(inner, i)))
	st.heapSetInner(key, arr, base, inner)
	return &SliceV{Base: base, Off: IntLit(0), Len: n, Cap: n, Elem: elem}
}

// entity field arrays ---------------------------------------------------------

type fieldInit struct {
	path  string     // leaf path within the entity struct
	sort  Sort
	isRef bool
	val   func(ent, row *Term) *Term // value for entity ref ent holding row
}

// entityFieldInits lists, for every leaf of the entity struct, how it is filled from the row.
// boxBase(k) gives the base of the k-th auxiliary block of n references (boxes of nillable fields).
func (st *State) entityFieldInits(h *HeapView, t *entTable, blocks *int, boxOf func(block int, ent *Term) *Term) []fieldInit {
	var out []fieldInit
	for _, c := range t.Cols {
		c := c
		col := func(row *Term) *Term { return st.colGet(h, t, c.Name, row) }
		null := func(row *Term) *Term { return st.colNull(h, t, c.Name, row) }
		vt := c.GoType
		if c.Ptr {
			vt = vt.Underlying().(*types.Pointer).Elem()
		}
		switch {
		case c.Slice != nil && !c.Ptr:
			out = append(out,
				fieldInit{c.Field + ".$b", SInt, true, func(e, r *Term) *Term { return Ite(null(r), IntLit(0), col(r)) }},
				fieldInit{c.Field + ".$l", SInt, false, func(e, r *Term) *Term { return Ite(null(r), IntLit(0), st.blobLen(col(r))) }},
				fieldInit{c.Field + ".$c", SInt, false, func(e, r *Term) *Term { return Ite(null(r), IntLit(0), st.blobLen(col(r))) }})
		case c.Ptr:
			blk := *blocks
			*blocks++
			bkey := "B|" + typeKey(vt) + "|"
			out = append(out, fieldInit{c.Field, SInt, true, func(e, r *Term) *Term { return Ite(null(r), IntLit(0), boxOf(blk, e)) }})
			// the box contents are installed by the caller through boxInits
			st.pendingBoxes = append(st.pendingBoxes, boxInit{key: bkey, sort: c.Sort, block: blk, val: col})
		default:
			if c.Nullable && c.Sort == SInt {
				// optional, non-nillable field: zero value when NULL
				out = append(out, fieldInit{c.Field, c.Sort, false, func(e, r *Term) *Term { return Ite(null(r), IntLit(0), col(r)) }})
			} else if c.Nullable && c.Sort == SBool {
				out = append(out, fieldInit{c.Field, c.Sort, false, func(e, r *Term) *Term { return Ite(null(r), TFalse, col(r)) }})
			} else if c.Nullable && c.Sort == SStr {
				empty := st.strLit("")
				out = append(out, fieldInit{c.Field, c.Sort, false, func(e, r *Term) *Term { return Ite(null(r), empty, col(r)) }})
			} else {
				out = append(out, fieldInit{c.Field, c.Sort, false, func(e, r *Term) *Term { return col(r) }})
			}
		}
	}
	return out
}

type boxInit struct {
	key   string
	sort  Sort
	block int
	val   func(row *Term) *Term
}

// mkEntity materialises one entity object for row.
func (st *State) mkEntity(t *entTable, b *entBuilder, row *Term) *Term {
	h := st.heap
	ent := st.allocRef()
	base := st.ptrAddr(ent, t.Named)
	for _, c := range t.Cols {
		col := st.colGet(h, t, c.Name, row)
		null := st.colNull(h, t, c.Name, row)
		fa := st.fieldAddr(base, c.FieldIdx)
		vt := c.GoType
		if c.Ptr {
			vt = vt.Underlying().(*types.Pointer).Elem()
		}
		switch {
		case c.Slice != nil && !c.Ptr:
			ln := Ite(null, IntLit(0), st.blobLen(col))
			st.store(fa, &SliceV{Base: Ite(null, IntLit(0), col), Off: IntLit(0), Len: ln, Cap: ln, Elem: c.Slice})
		case c.Ptr:
			box := st.allocRef()
			st.store(st.ptrAddr(box, vt), st.colToGo(c, vt, col))
			st.store(fa, Ite(null, IntLit(0), box))
		default:
			// a NULL scanned into a non-pointer field leaves the field's zero value
			switch {
			case c.Nullable && c.Sort == SInt:
				st.store(fa, Ite(null, IntLit(0), col))
			case c.Nullable && c.Sort == SBool:
				st.store(fa, Ite(null, TFalse, col))
			case c.Nullable && c.Sort == SStr:
				st.store(fa, Ite(null, st.strLit(""), col))
			default:
				st.store(fa, col)
			}
		}
	}
	// edges
	st.clearEdges(t, ent)
	for _, w := range b.With {
		st.loadEdgeOne(t, ent, row, w)
	}
	return ent
}

// colToGo converts a column value to the Go value of type vt.
func (st *State) colToGo(c *entCol, vt types.Type, col *Term) SVal {
	if sl, ok := vt.Underlying().(*types.Slice); ok {
		ln := st.blobLen(col)
		return &SliceV{Base: col, Off: IntLit(0), Len: ln, Cap: ln, Elem: sl.Elem()}
	}
	return col
}

func (st *State) clearEdges(t *entTable, ent *Term) {
	tk := "F|" + typeKey(t.Named)
	es, ok := edgesStruct(t.Struct)
	if !ok {
		return
	}
	for i := 0; i < es.NumFields(); i++ {
		f := es.Field(i)
		for _, l := range st.e.leaves(f.Type()) {
			if !(l.Sort == SInt) {
				continue
			}
			key := tk + "|" + joinPath("Edges."+f.Name(), l.Path)
			arr := st.heapGet(st.heap, key, ArrS(SInt, l.Sort), l.IsRef)
			st.heapSet(key, Store(arr, ent, IntLit(0)))
		}
	}
}

func (st *State) loadEdgeOne(t *entTable, ent, row *Term, w entWith) {
	ed := t.Edges[w.Edge]
	if ed == nil {
		st.unsupported("ent: eager load of unknown edge %s", w.Edge)
	}
	target := st.e.ent.Tables[ed.Target]
	tk := "F|" + typeKey(t.Named)
	if ed.M2O {
		if w.Opts != nil {
			st.unsupported("ent: eager-load options on a to-one edge")
		}
		fk := st.colGet(st.heap, t, ed.FKCol, row)
		null := st.colNull(st.heap, t, ed.FKCol, row)
		te := st.mkEntity(target, &entBuilder{Table: target}, fk)
		key := tk + "|Edges." + ed.Field
		arr := st.heapGet(st.heap, key, ArrS(SInt, SInt), true)
		st.heapSet(key, Store(arr, ent, Ite(Or(null, Not(st.rowLive(st.heap, target, fk))), IntLit(0), te)))
		return
	}
	// to-many: a query on the target table
	qh := st.newBuilder("query", target)
	qb := st.builder(qh)
	qb.Preds = append(qb.Preds, st.newPred(&EntPred{Op: "field", Table: target.Name, Col: ed.FKCol, Cmp: "EQ", Arg: row}))
	if w.Opts != nil {
		st.callSync(w.Opts, []SVal{qh})
		qb = st.builder(qh)
	}
	rows, n := st.queryRows(qb)
	sl := st.mkEntities(target, qb, rows, n)
	ei, _ := findField(t.Struct, "Edges")
	es, _ := edgesStruct(t.Struct)
	fi, _ := findField(es, ed.Field)
	st.store(st.fieldAddr(st.fieldAddr(st.ptrAddr(ent, t.Named), ei), fi), sl)
}

// mkEntities materialises n entity objects, the i-th for rows[i], and returns the slice of pointers.
func (st *State) mkEntities(t *entTable, b *entBuilder, rows, n *Term) *SliceV {
	h := st.snapshot()
	w0 := st.define("blk", st.watermark())
	blocks := 1 // block 0: the entities themselves
	st.pendingBoxes = nil
	blockBase := func(k int) *Term { return Add(w0, Mul(IntLit(int64(k)), n)) }
	idxOf := func(e *Term) *Term { return Sub(e, w0) }
	inits := st.entityFieldInits(h, t, &blocks, func(block int, e *Term) *Term { return Add(blockBase(block), idxOf(e)) })
	boxes := st.pendingBoxes
	st.pendingBoxes = nil
	// eager-loaded to-one edges take one more block each
	type edgeLoad struct {
		ed     *entEdge
		target *entTable
		block  int
	}
	var loads []edgeLoad
	for _, w := range b.With {
		ed := t.Edges[w.Edge]
		if ed == nil || !ed.M2O || w.Opts != nil {
			st.unsupported("ent: eager load %s on a list query is not modelled", w.Edge)
		}
		loads = append(loads, edgeLoad{ed, st.e.ent.Tables[ed.Target], blocks})
		blocks++
	}
	isEnt := func(r *Term) *Term { return And(Ge(r, w0), Lt(r, Add(w0, n))) }
	rowOf := func(r *Term) *Term { return Select(rows, idxOf(r)) }
	tk := "F|" + typeKey(t.Named)
	for _, fi := range inits {
		fi := fi
		st.heapUpdateQ(tk+"|"+fi.path, ArrS(SInt, fi.sort), fi.isRef, func(r, old *Term) *Term { return Ite(isEnt(r), fi.val(r, rowOf(r)), old) })
	}
	for _, bi := range boxes {
		bi := bi
		bb := blockBase(bi.block)
		st.heapUpdateQ(bi.key, ArrS(SInt, bi.sort), false, func(r, old *Term) *Term {
			return Ite(And(Ge(r, bb), Lt(r, Add(bb, n))), bi.val(Select(rows, Sub(r, bb))), old)
		})
	}
	// edges: nil unless loaded
	if es, ok := edgesStruct(t.Struct); ok {
		for i := 0; i < es.NumFields(); i++ {
			f := es.Field(i)
			for _, l := range st.e.leaves(f.Type()) {
				if l.Sort != SInt {
					continue
				}
				var ld *edgeLoad
				for k := range loads {
					if loads[k].ed.Field == f.Name() {
						ld = &loads[k]
					}
				}
				key := tk + "|" + joinPath("Edges."+f.Name(), l.Path)
				st.heapUpdateQ(key, ArrS(SInt, SInt), l.IsRef, func(r, old *Term) *Term {
					if ld != nil {
						fk := st.colGet(h, t, ld.ed.FKCol, rowOf(r))
						found := And(Not(st.colNull(h, t, ld.ed.FKCol, rowOf(r))), st.rowLive(h, ld.target, fk))
						return Ite(isEnt(r), Ite(found, Add(blockBase(ld.block), idxOf(r)), IntLit(0)), old)
					}
					return Ite(isEnt(r), IntLit(0), old)
				})
			}
		}
	}
	// loaded neighbour entities
	for _, ld := range loads {
		ld := ld
		bb := blockBase(ld.block)
		nblocks := 0
		st.pendingBoxes = nil
		sub := 0
		_ = sub
		inner := st.entityFieldInits(h, ld.target, &nblocks, func(block int, e *Term) *Term {
			return Add(blockBase(blocks+block), Sub(e, bb))
		})
		nboxes := st.pendingBoxes
		st.pendingBoxes = nil
		isN := func(r *Term) *Term { return And(Ge(r, bb), Lt(r, Add(bb, n))) }
		nrow := func(r *Term) *Term { return st.colGet(h, t, ld.ed.FKCol, Select(rows, Sub(r, bb))) }
		ttk := "F|" + typeKey(ld.target.Named)
		for _, fi := range inner {
			fi := fi
			st.heapUpdateQ(ttk+"|"+fi.path, ArrS(SInt, fi.sort), fi.isRef, func(r, old *Term) *Term { return Ite(isN(r), fi.val(r, nrow(r)), old) })
		}
		for _, bi := range nboxes {
			bi := bi
			b2 := blockBase(blocks + bi.block)
			st.heapUpdateQ(bi.key, ArrS(SInt, bi.sort), false, func(r, old *Term) *Term {
				return Ite(And(Ge(r, b2), Lt(r, Add(b2, n))), bi.val(st.colGet(h, t, ld.ed.FKCol, Select(rows, Sub(r, b2)))), old)
			})
		}
		blocks += nblocks
	}
	// advance the allocation watermark past all blocks
	nb := st.fresh("A", SInt)
	st.assume(Eq(nb, Add(w0, Mul(IntLit(int64(blocks)), n))))
	st.allocB = nb
	st.allocOff = 0
	// the result slice
	pt := types.NewPointer(t.Named)
	res := st.mkColumnSlice(pt, func(i *Term) *Term { return Add(w0, i) }, n)
	if st.resultSlices == nil {
		st.resultSlices = map[string]resultSlice{}
	}
	st.resultSlices[res.Base.S] = resultSlice{key: "E|" + typeKey(pt), w0: w0}
	// bridge for the solver: from a selected row x directly to its entity object and its place in the result
	if pos, ok := st.ghostObj["lastpos"].(*Term); ok && b.Kind == "query" {
		st.ghostObj["pos:"+res.Base.S] = pos
		x := st.qv("x")
		px := Select(pos, x)
		inRes := And(Ge(px, IntLit(0)), Lt(px, n), Eq(Select(rows, px), x))
		ekey := "E|" + typeKey(pt) + "|"
		ecur := st.heapGet(st.heap, ekey, ArrS(SInt, ArrS(SInt, SInt)), true)
		idArr := st.heapGet(st.heap, tk+"|ID", ArrS(SInt, SInt), false)
		st.assume(Forall([]*Term{x}, Implies(And(st.rowLive(h, t, x), inRes), And(Eq(Select(Select(ecur, res.Base), px), Add(w0, px)), Eq(Select(idArr, Add(w0, px)), x))), st.rowLive(h, t, x)))
	}
	return res
}

// scanInto implements Select(cols...).Scan(ctx, &v).
func (st *State) scanInto(b *entBuilder, dst SVal, dstType types.Type) {
	t := b.Table
	// v is *[]T: an interface holding the pointer in the generated signature (any)
	var ptr SVal = dst
	var sliceT *types.Slice
	if iv, ok := dst.(*IfaceV); ok {
		if iv.Conc == nil {
			st.unsupported("ent: Scan into a value of unknown type")
		}
		ptr = iv.CVal
		pt, ok := iv.Conc.Underlying().(*types.Pointer)
		if !ok {
			st.unsupported("ent: Scan destination is not a pointer")
		}
		sliceT, _ = pt.Elem().Underlying().(*types.Slice)
	}
	if sliceT == nil {
		st.unsupported("ent: Scan destination is not a pointer to a slice")
	}
	distinct := false
	var extra map[string]sqlCol
	var extraSel *sqlSel
	for _, p := range b.Preds {
		if fv, ok := p.(*FuncV); ok {
			sel := st.runSelector(t, fv)
			if sel.Distinct {
				distinct = true
			}
			if sel.Extra != nil {
				extra = sel.Extra
				extraSel = sel
			}
		}
	}
	h := st.heap
	elem := sliceT.Elem()
	if su, ok := elem.Underlying().(*types.Struct); ok && !isOpaque(elem) {
		// struct scan by `sql` tags
		if distinct {
			st.unsupported("ent: DISTINCT struct scan")
		}
		rows, n := st.queryRows(b)
		base := st.allocRef()
		for i := 0; i < su.NumFields(); i++ {
			f := su.Field(i)
			tag := reflect.StructTag(su.Tag(i)).Get("sql")
			if tag == "" {
				tag = strings.ToLower(f.Name())
			}
			ls := st.e.leaves(f.Type())
			if len(ls) != 1 {
				st.unsupported("ent: struct scan field %s is not scalar", f.Name())
			}
			var val func(i *Term) *Term
			if c := t.ByName[tag]; c != nil && contains(b.Select, tag) {
				val = func(i *Term) *Term { return st.colGet(h, t, tag, Select(rows, i)) }
			} else if sc, ok := extra[tag]; ok {
				// column of a joined table: only FK->PK joins
				var jn *sqlJoin
				for k := range extraSel.Joins {
					if extraSel.Joins[k].Alias == sc.Alias {
						jn = &extraSel.Joins[k]
					}
				}
				if jn == nil {
					st.unsupported("ent: selected alias of an unknown join")
				}
				a, bb := jn.OnA, jn.OnB
				if a.Alias == jn.Alias {
					a, bb = bb, a
				}
				if bb.Col != "id" || a.Alias != t.Name {
					st.unsupported("ent: selected column of a non FK->PK join")
				}
				jt := st.e.ent.Tables[jn.Table]
				val = func(i *Term) *Term {
					return st.colGet(h, jt, sc.Col, st.colGet(h, t, a.Col, Select(rows, i)))
				}
			} else {
				st.unsupported("ent: struct scan field %s (tag %q) is not selected", f.Name(), tag)
			}
			key := "E|" + typeKey(elem) + "|" + f.Name()
			arr := st.heapGet(st.heap, key, ArrS(SInt, ArrS(SInt, ls[0].Sort)), ls[0].IsRef)
			inner := st.fresh("scan", ArrS(SInt, ls[0].Sort))
			iq := st.qv("i")
			st.assume(Forall([]*Term{iq}, Implies(And(Ge(iq, IntLit(0)), Lt(iq, n)), Eq(Select(inner, iq), val(iq))), Select(inner, iq)))
			st.heapSet(key, Store(arr, base, inner))
		}
		st.storeScanResult(ptr, sliceT, &SliceV{Base: base, Off: IntLit(0), Len: n, Cap: n, Elem: elem})
		st.ghostObj["lastscan"] = &scanInfo{rows: rows, n: n}
		return
	}
	if len(b.Select) != 1 {
		st.unsupported("ent: scalar Scan of %d columns", len(b.Select))
	}
	col := b.Select[0]
	if !distinct {
		rows, n := st.queryRows(b)
		res := st.mkColumnSlice(elem, func(i *Term) *Term { return st.colGet(h, t, col, Select(rows, i)) }, n)
		st.storeScanResult(ptr, sliceT, res)
		return
	}
	// SELECT DISTINCT col: the set of values of col over the selected rows, each once
	c := t.ByName[col]
	vals := st.fresh("vals", ArrS(SInt, c.Sort))
	vpos := st.fresh("vpos", ArrS(c.Sort, SInt))
	wit := st.fresh("wit", ArrS(SInt, SInt)) // a witness row for each value
	n := st.fresh("n", SInt)
	st.assume(Ge(n, IntLit(0)))
	i := st.qv("i")
	inR := func(i *Term) *Term { return And(Ge(i, IntLit(0)), Lt(i, n)) }
	vi := Select(vals, i)
	st.assume(Forall([]*Term{i}, Implies(inR(i), And(Eq(Select(vpos, vi), i), st.selFormula(h, b, Select(wit, i)), Eq(st.colGet(h, t, col, Select(wit, i)), vi))), vi))
	x := st.qv("x")
	vx := st.colGet(h, t, col, x)
	st.assume(Forall([]*Term{x}, Implies(st.selFormula(h, b, x), And(inR(Select(vpos, vx)), Eq(Select(vals, Select(vpos, vx)), vx)))))
	res := st.mkArraySlice(elem, vals, n)
	// the set of result values, directly: every selected row's value is a member
	mem := st.memberArr(st.heap, res)
	st.assume(Forall([]*Term{x}, Implies(st.selFormula(h, b, x), Select(mem, vx))))
	st.storeScanResult(ptr, sliceT, res)
}

type scanInfo struct{ rows, n *Term }

func (st *State) storeScanResult(ptr SVal, sliceT *types.Slice, res *SliceV) {
	a := st.ptrAddr(ptr, sliceT)
	st.store(a, res)
}

// ---------------------------------------------------------------------------
// Updates and deletes

func (st *State) applyUpdate(pre *HeapView, b *entBuilder) {
	t := b.Table
	sel := func(x *Term) *Term { return st.selFormula(pre, b, x) }
	for _, s := range st.effSets(b) {
		s := s
		c := t.ByName[s.Col]
		switch s.Op {
		case "sym":
			isSet, isClr, isAdd := Eq(s.OpT, IntLit(1)), Eq(s.OpT, IntLit(2)), Eq(s.OpT, IntLit(3))
			numeric := c.Sort == SInt && c.Slice == nil
			st.heapUpdateQ(tblKey(t.Name, s.Col), ArrS(SInt, c.Sort), false, func(x, old *Term) *Term {
				nv := Ite(isSet, s.Val, old)
				if numeric {
					nv = Ite(isSet, s.Val, Ite(isAdd, Add(old, s.Val), old))
				}
				return Ite(sel(x), nv, old)
			})
			if c.Nullable {
				st.heapUpdateQ(tblNull(t.Name, s.Col), ArrS(SInt, SBool), false, func(x, old *Term) *Term {
					return Ite(sel(x), Ite(isSet, TFalse, Ite(isClr, TTrue, old)), old)
				})
			}
		case "set", "setif":
			val := s.Val
			if val.Sort != c.Sort {
				st.unsupported("ent: Set%s value has sort %s, column %s", c.Field, val.Sort, c.Sort)
			}
			st.heapUpdateQ(tblKey(t.Name, s.Col), ArrS(SInt, c.Sort), false, func(x, old *Term) *Term { return Ite(sel(x), val, old) })
			if c.Nullable {
				st.heapUpdateQ(tblNull(t.Name, s.Col), ArrS(SInt, SBool), false, func(x, old *Term) *Term { return Ite(sel(x), TFalse, old) })
			}
		case "add":
			st.heapUpdateQ(tblKey(t.Name, s.Col), ArrS(SInt, c.Sort), false, func(x, old *Term) *Term { return Ite(sel(x), Add(old, s.Val), old) })
		case "clear":
			if !c.Nullable {
				st.unsupported("ent: Clear of a non-nullable column %s", s.Col)
			}
			st.heapUpdateQ(tblNull(t.Name, s.Col), ArrS(SInt, SBool), false, func(x, old *Term) *Term { return Ite(sel(x), TTrue, old) })
		}
	}
	st.rowHook(pre, t, sel)
}

// rowHook: the mutation hooks of Topic and Subscription (ent/schema checkLiveOrDeleted) reject a
// mutation unless the resulting row has live = true <=> deleted_at IS NULL. On the success path
// that is therefore a fact about every written row.
func (st *State) rowHook(pre *HeapView, t *entTable, sel func(x *Term) *Term) {
	if t.ByName["live"] == nil || t.ByName["deleted_at"] == nil {
		return
	}
	x := st.qv("x")
	liveCol := And(Not(st.colNull(st.heap, t, "live", x)), st.colGet(st.heap, t, "live", x))
	st.assume(Forall([]*Term{x}, Implies(sel(x), Eq(liveCol, st.colNull(st.heap, t, "deleted_at", x)))))
}

func (st *State) applyDelete(pre *HeapView, b *entBuilder) {
	t := b.Table
	sel := func(x *Term) *Term { return st.selFormula(pre, b, x) }
	st.heapUpdateQ(tblLive(t.Name), ArrS(SInt, SBool), false, func(x, old *Term) *Term { return And(old, Not(sel(x))) })
	// foreign keys referencing this table
	for _, u := range st.e.ent.Tables {
		for _, fk := range u.FKs {
			if fk.RefTable != t.Name {
				continue
			}
			u, fk := u, fk
			switch fk.OnDelete {
			case "SetNull":
				st.heapUpdateQ(tblNull(u.Name, fk.Col), ArrS(SInt, SBool), false, func(y, old *Term) *Term {
					return Or(old, And(Not(old), sel(st.colGet(pre, u, fk.Col, y))))
				})
			case "Cascade":
				st.unsupported("ent: ON DELETE CASCADE is not modelled")
			default:
				// NO ACTION: the statement only succeeds if no surviving row references a deleted one
				y := st.qv("y")
				survives := st.rowLive(st.heap, u, y)
				st.assume(Forall([]*Term{y}, Implies(And(survives, Not(st.colNull(pre, u, fk.Col, y))), Not(sel(st.colGet(pre, u, fk.Col, y))))))
			}
		}
	}
}

// hookRejectUpdate forks the path in which the schema hook (live = true <=> deleted_at IS NULL) refuses
// the update because some selected row would violate the rule afterwards.
func (st *State) hookRejectUpdate(pre *HeapView, h *EntH, results *types.Tuple, k func(st *State, res SVal)) {
	b := st.builder(h)
	t := b.Table
	if t.ByName["live"] == nil || t.ByName["deleted_at"] == nil {
		return
	}
	touches := false
	for _, s := range st.effSets(b) {
		if s.Col == "live" || s.Col == "deleted_at" {
			touches = true
		}
	}
	if !touches {
		return
	}
	st2 := st.clone()
	b2 := st2.builder(h)
	x := st2.fresh("badrow", SInt)
	// values after the update for row x
	liveNull := st2.colNull(pre, t, "live", x)
	liveVal := st2.colGet(pre, t, "live", x)
	delNull := st2.colNull(pre, t, "deleted_at", x)
	for _, s := range st2.effSets(b2) {
		switch {
		case s.Col == "live" && s.Op == "sym":
			liveNull = Ite(Eq(s.OpT, IntLit(1)), TFalse, Ite(Eq(s.OpT, IntLit(2)), TTrue, liveNull))
			liveVal = Ite(Eq(s.OpT, IntLit(1)), s.Val, liveVal)
		case s.Col == "deleted_at" && s.Op == "sym":
			delNull = Ite(Eq(s.OpT, IntLit(1)), TFalse, Ite(Eq(s.OpT, IntLit(2)), TTrue, delNull))
		case s.Col == "live" && s.Op == "clear":
			liveNull = TTrue
		case s.Col == "live" && s.Op == "set":
			liveNull, liveVal = TFalse, s.Val
		case s.Col == "deleted_at" && s.Op == "clear":
			delNull = TTrue
		case s.Col == "deleted_at" && s.Op == "set":
			delNull = TFalse
		}
	}
	st2.assume(And(st2.selFormula(pre, b2, x), Not(Eq(And(Not(liveNull), liveVal), delNull))))
	e := st2.newErr("hookerr")
	st2.assume(st2.errIs("validation", e))
	st2.assume(Not(st2.errIs("notfound", e)))
	st2.assume(Not(st2.errIs("constraint", e)))
	st2.tr("hook-rejects")
	k(st2, st2.resultWithErr(results, e, nil))
}

