package main

import (
	"fmt"
	"os"
	"runtime/debug"
	"go/types"
	"path"
	"sort"
	"strings"

	"golang.org/x/tools/go/ssa"
)

// ---------------------------------------------------------------------------
// Symbolic values (immutable once created)

type SVal interface{}

type StructV struct {
	Typ types.Type
	F   []SVal
}

type SliceV struct {
	Base, Off, Len, Cap *Term
	Elem                types.Type
}

type IfaceV struct {
	Tag, Val *Term
	Conc     types.Type // statically known dynamic type (nil if unknown)
	CVal     SVal       // the concrete value when Conc is known
}

type TupleV struct{ Vs []SVal }

// AddrV is a pointer that designates a cell of a heap array.
type AddrV struct {
	Kind string // field box elem global
	Base *Term
	Idx  *Term
	Key  string // array key prefix
	Path string // leaf path prefix
	Type types.Type
}

// FuncV is a function value: a known function (with closure bindings) or an
// unknown one (Fn == nil, Sym is its Int identity).
type FuncV struct {
	Fn       *ssa.Function
	Bindings []SVal
	Sym      *Term
	Bound    SVal // bound method receiver
}

type MapIterV struct {
	Map     *Term
	KeyT    types.Type
	ValT    types.Type
	Visited string // state variable name holding the visited set
	IsStr   bool
	Str     *Term
	Pos     string
}

// Leaf describes one SMT-sorted component of a Go type.
type Leaf struct {
	Path  string
	Sort  Sort
	IsRef bool
}

func joinPath(a, b string) string {
	if a == "" {
		return b
	}
	if b == "" {
		return a
	}
	return a + "." + b
}

var opaqueTypes = map[string]bool{
	"time.Time":                    true,
	"github.com/google/uuid.UUID": true,
	"time.Location":                true,
}

func isOpaque(t types.Type) bool {
	if n, ok := t.(*types.Named); ok {
		if n.Obj().Pkg() != nil && opaqueTypes[n.Obj().Pkg().Path()+"."+n.Obj().Name()] {
			return true
		}
	}
	return false
}

func isErrorType(t types.Type) bool {
	if n, ok := t.(*types.Named); ok && n.Obj().Pkg() == nil && n.Obj().Name() == "error" {
		return true
	}
	return false
}

// typeKey names a type; alias names (type A = B) are resolved first, so that one type never gets two heap keys.
func typeKey(t types.Type) string { return types.TypeString(canonType(t), nil) }

func canonType(t types.Type) types.Type {
	switch x := types.Unalias(t).(type) {
	case *types.Pointer:
		if e := canonType(x.Elem()); e != x.Elem() {
			return types.NewPointer(e)
		}
		return x
	case *types.Slice:
		if e := canonType(x.Elem()); e != x.Elem() {
			return types.NewSlice(e)
		}
		return x
	case *types.Array:
		if e := canonType(x.Elem()); e != x.Elem() {
			return types.NewArray(e, x.Len())
		}
		return x
	case *types.Map:
		k, v := canonType(x.Key()), canonType(x.Elem())
		if k != x.Key() || v != x.Elem() {
			return types.NewMap(k, v)
		}
		return x
	case *types.Chan:
		if e := canonType(x.Elem()); e != x.Elem() {
			return types.NewChan(x.Dir(), e)
		}
		return x
	default:
		return x
	}
}

func (e *Engine) leaves(t types.Type) []Leaf {
	ts := typeKey(t)
	if l, ok := e.leafCache[ts]; ok {
		return l
	}
	var out []Leaf
	if isOpaque(t) {
		out = []Leaf{{"", SInt, false}}
	} else if isErrorType(t) {
		out = []Leaf{{"", SInt, false}}
	} else {
		switch u := t.Underlying().(type) {
		case *types.Basic:
			switch {
			case u.Info()&types.IsBoolean != 0:
				out = []Leaf{{"", SBool, false}}
			case u.Info()&types.IsInteger != 0:
				out = []Leaf{{"", SInt, false}}
			case u.Info()&types.IsFloat != 0:
				out = []Leaf{{"", SReal, false}}
			case u.Info()&types.IsString != 0:
				out = []Leaf{{"", SStr, false}}
			default:
				out = []Leaf{{"", SInt, false}}
			}
		case *types.Pointer, *types.Map, *types.Chan:
			out = []Leaf{{"", SInt, true}}
		case *types.Signature:
			out = []Leaf{{"", SInt, false}}
		case *types.Interface:
			out = []Leaf{{"$t", SInt, false}, {"$v", SInt, false}}
		case *types.Slice:
			out = []Leaf{{"$b", SInt, true}, {"$l", SInt, false}, {"$c", SInt, false}}
		case *types.Struct:
			for i := 0; i < u.NumFields(); i++ {
				f := u.Field(i)
				for _, l := range e.leaves(f.Type()) {
					out = append(out, Leaf{joinPath(f.Name(), l.Path), l.Sort, l.IsRef})
				}
			}
			if len(out) == 0 {
				out = nil
			}
		case *types.Array:
			out = []Leaf{{"", SInt, false}}
		case *types.Tuple:
			out = []Leaf{{"", SInt, false}}
		default:
			out = []Leaf{{"", SInt, false}}
		}
	}
	e.leafCache[ts] = out
	return out
}

// flatten turns a value of Go type t into its leaf terms.
func (st *State) flatten(v SVal, t types.Type) []*Term {
	e := st.e
	if isOpaque(t) || isErrorType(t) {
		return []*Term{st.scalar(v)}
	}
	switch u := t.Underlying().(type) {
	case *types.Interface:
		iv, ok := v.(*IfaceV)
		if !ok {
			st.unsupported("flatten: interface value expected, got %T", v)
		}
		return []*Term{iv.Tag, iv.Val}
	case *types.Slice:
		sv, ok := v.(*SliceV)
		if !ok {
			st.unsupported("flatten: slice value expected, got %T", v)
		}
		if !isLitZero(sv.Off) {
			st.unsupported("a slice with a non-zero offset into its backing array is stored or compared (not in the modelled subset)")
		}
		return []*Term{sv.Base, sv.Len, sv.Cap}
	case *types.Struct:
		sv, ok := v.(*StructV)
		if !ok {
			st.unsupported("flatten: struct value expected for %s, got %T", typeKey(t), v)
		}
		var out []*Term
		for i := 0; i < u.NumFields(); i++ {
			out = append(out, st.flatten(sv.F[i], u.Field(i).Type())...)
		}
		return out
	case *types.Signature:
		switch fv := v.(type) {
		case *FuncV:
			if fv.Sym != nil {
				return []*Term{fv.Sym}
			}
			return []*Term{st.funcSym(fv)}
		case *Term:
			return []*Term{fv}
		}
		return []*Term{st.scalar(v)}
	}
	_ = e
	return []*Term{st.scalar(v)}
}

func (st *State) scalar(v SVal) *Term {
	switch x := v.(type) {
	case *Term:
		return x
	case *AddrV:
		if x.Kind == "field" && x.Path == "" {
			return x.Base
		}
		if x.Kind == "box" && x.Path == "" {
			return x.Base
		}
		// An interior pointer that has to become a first-class value (stored in the heap or passed to a
		// contracted callee) is modelled as a pointer to a fresh cell holding a copy of the current
		// contents. Sound as long as the cell is not written through either alias afterwards; every
		// such site is listed in the evidence.
		if x.Kind == "field" || x.Kind == "elem" {
			st.e.note(st.u.name, "assumption", "interior pointer "+displayKey(x.Key)+"."+x.Path+" treated as pointer to an unmodified copy")
			cur := st.load(st.heap, x)
			r := st.allocRef()
			st.store(st.ptrAddr(r, x.Type), cur)
			return r
		}
		st.unsupported("interior pointer (%s %s %s) used as a value", x.Kind, x.Key, x.Path)
	case *FuncV:
		if x.Sym != nil {
			return x.Sym
		}
		return st.funcSym(x)
	case *EntH:
		return IntLit(int64(5000000 + x.ID))
	case *bulkV:
		return IntLit(4999999)
	case nil:
		st.unsupported("nil SVal used as scalar")
	}
	st.unsupported("scalar: unexpected value %T", v)
	return nil
}

// unflatten rebuilds a value of type t from leaf terms (consumes from ts).
func (st *State) unflatten(ts *[]*Term, t types.Type) SVal {
	take := func() *Term { x := (*ts)[0]; *ts = (*ts)[1:]; return x }
	if isOpaque(t) || isErrorType(t) {
		return take()
	}
	switch u := t.Underlying().(type) {
	case *types.Interface:
		tag, val := take(), take()
		return &IfaceV{Tag: tag, Val: val}
	case *types.Slice:
		b, l, c := take(), take(), take()
		return &SliceV{Base: b, Off: IntLit(0), Len: l, Cap: c, Elem: u.Elem()}
	case *types.Struct:
		sv := &StructV{Typ: t}
		for i := 0; i < u.NumFields(); i++ {
			sv.F = append(sv.F, st.unflatten(ts, u.Field(i).Type()))
		}
		return sv
	case *types.Signature:
		return &FuncV{Sym: take()}
	}
	return take()
}

// ---------------------------------------------------------------------------
// Heap views

type havocEvent struct {
	ID        int
	Patterns  []string // display-key globs; nil = everything
	Except    []string
	Watermark *Term
	// KeepFrom: the havocked code cannot reach objects allocated by this unit (references >= KeepFrom) other than
	// the ones handed to it (KeepExcept): their cells keep the values recorded in Prev
	KeepFrom   *Term
	KeepExcept []*Term
	Prev       map[string]*Term
	// KeepBelow: only objects allocated by the havocked code itself may differ (contract clause "allocates"):
	// cells of references below KeepBelow keep their values
	KeepBelow *Term
	Index     int // position in the havoc log
}

type HeapView struct {
	vers   map[string]*Term
	logLen int
}

func (h *HeapView) clone() *HeapView {
	n := &HeapView{vers: make(map[string]*Term, len(h.vers)), logLen: h.logLen}
	for k, v := range h.vers {
		n.vers[k] = v
	}
	return n
}

type deferred struct {
	call *ssa.Defer
	fn   SVal
	args []SVal
}

type Frame struct {
	fn       *ssa.Function
	vals     map[ssa.Value]SVal
	bindings []SVal
	defers   []deferred
	ret      func(st *State, results []SVal)
	depth    int
	isUnit   bool
	rangeIts map[ssa.Value]*MapIterV
	dbg      map[string]dbgVar
}

type dbgVar struct {
	v      SVal
	t      types.Type
	isAddr bool
}

func (f *Frame) clone() *Frame {
	n := *f
	n.vals = make(map[ssa.Value]SVal, len(f.vals))
	for k, v := range f.vals {
		n.vals[k] = v
	}
	n.defers = append([]deferred(nil), f.defers...)
	if f.dbg != nil {
		n.dbg = make(map[string]dbgVar, len(f.dbg))
		for k, v := range f.dbg {
			n.dbg[k] = v
		}
	}
	return &n
}

// State is the symbolic state of one path.
type State struct {
	e        *Engine
	u        *Unit
	decls    []string
	declared map[string]bool
	asserts  []*Term
	heap     *HeapView
	pre      *HeapView
	labels   map[string]*HeapView
	havocLog []havocEvent
	n        int
	nver     map[string]int
	allocB   *Term
	allocOff int
	frames   []*Frame
	opened   map[*ssa.BasicBlock]bool
	loopEntry map[*ssa.BasicBlock]*HeapView // heap when a loop of the unit was first reached (entry(...) in invariants)
	strlits  map[string]*Term
	trace    []string
	ghostObj map[string]any // engine-side abstract objects (ent builders, hook lists, lock sets)
	events   []string
	steps    int
	dead     bool
	freshRefs map[string]bool
	nonzero  map[string]bool
	shadowKeys map[string][]string
	shadow   map[string]SVal // engine-side values (handles, closures) stored in cells of objects allocated on this path
	pendingBoxes []boxInit
	resultSlices map[string]resultSlice // query result slices whose elements are still w0+i
	arrDefs  map[string]arrDef
	batching int
	pending  []*Obligation
	evCounter int
}

func (st *State) clone() *State {
	n := *st
	n.decls = append([]string(nil), st.decls...)
	n.asserts = append([]*Term(nil), st.asserts...)
	n.declared = make(map[string]bool, len(st.declared))
	for k := range st.declared {
		n.declared[k] = true
	}
	n.heap = st.heap.clone()
	n.pre = st.pre.clone()
	n.labels = make(map[string]*HeapView, len(st.labels))
	for k, v := range st.labels {
		n.labels[k] = v
	}
	n.havocLog = append([]havocEvent(nil), st.havocLog...)
	n.nver = make(map[string]int, len(st.nver))
	for k, v := range st.nver {
		n.nver[k] = v
	}
	n.frames = make([]*Frame, len(st.frames))
	for i, f := range st.frames {
		n.frames[i] = f.clone()
	}
	n.loopEntry = make(map[*ssa.BasicBlock]*HeapView, len(st.loopEntry))
	for k, v := range st.loopEntry {
		n.loopEntry[k] = v
	}
	n.opened = make(map[*ssa.BasicBlock]bool, len(st.opened))
	for k, v := range st.opened {
		n.opened[k] = v
	}
	n.strlits = make(map[string]*Term, len(st.strlits))
	for k, v := range st.strlits {
		n.strlits[k] = v
	}
	n.trace = append([]string(nil), st.trace...)
	n.events = append([]string(nil), st.events...)
	n.freshRefs = make(map[string]bool, len(st.freshRefs))
	for k := range st.freshRefs {
		n.freshRefs[k] = true
	}
	n.nonzero = make(map[string]bool, len(st.nonzero))
	for k := range st.nonzero {
		n.nonzero[k] = true
	}
	n.shadowKeys = make(map[string][]string, len(st.shadowKeys))
	for k, v := range st.shadowKeys {
		n.shadowKeys[k] = v
	}
	n.shadow = make(map[string]SVal, len(st.shadow))
	for k, v := range st.shadow {
		n.shadow[k] = v
	}
	n.resultSlices = make(map[string]resultSlice, len(st.resultSlices))
	for k, v := range st.resultSlices {
		n.resultSlices[k] = v
	}
	n.arrDefs = make(map[string]arrDef, len(st.arrDefs))
	for k, v := range st.arrDefs {
		n.arrDefs[k] = v
	}
	n.pendingBoxes = nil
	n.pending = append([]*Obligation(nil), st.pending...)
	n.ghostObj = make(map[string]any, len(st.ghostObj))
	for k, v := range st.ghostObj {
		if c, ok := v.(interface{ cloneObj() any }); ok {
			n.ghostObj[k] = c.cloneObj()
		} else {
			n.ghostObj[k] = v
		}
	}
	return &n
}

type unsupportedErr struct{ msg string }

func (st *State) unsupported(f string, a ...any) {
	if os.Getenv("GOVC_DEBUG") != "" {
		var fns []string
		for _, fr := range st.frames {
			fns = append(fns, fr.fn.String())
		}
		fmt.Fprintf(os.Stderr, "UNSUPPORTED: %s\n  path: %v\n  frames: %v\n", fmt.Sprintf(f, a...), st.trace, fns)
		debug.PrintStack()
	}
	panic(unsupportedErr{fmt.Sprintf(f, a...)})
}

func (st *State) fresh(prefix string, s Sort) *Term {
	st.n++
	name := fmt.Sprintf("%s!%d", prefix, st.n)
	return st.declare(name, s)
}

func (st *State) declare(name string, s Sort) *Term {
	t := Const(name, s)
	if !st.declared[t.S] {
		st.declared[t.S] = true
		st.decls = append(st.decls, fmt.Sprintf("(declare-const %s %s)", t.S, sortStr(s)))
	}
	return t
}

func (st *State) declareFun(name string, args []Sort, res Sort) string {
	s := sym(name)
	if !st.declared["fun:"+s] {
		st.declared["fun:"+s] = true
		var as []string
		for _, a := range args {
			as = append(as, sortStr(a))
		}
		st.decls = append(st.decls, fmt.Sprintf("(declare-fun %s (%s) %s)", s, strings.Join(as, " "), sortStr(res)))
	}
	return s
}

func (st *State) assume(t *Term) {
	if isTrue(t) {
		return
	}
	if t.Sort != SBool {
		panic("assume of non-bool " + t.S)
	}
	st.asserts = append(st.asserts, t)
}

// define introduces a named constant equal to t (keeps terms small).
func (st *State) define(prefix string, t *Term) *Term {
	if t.Lit != nil || len(t.S) < 40 {
		return t
	}
	c := st.fresh(prefix, t.Sort)
	st.asserts = append(st.asserts, App(SBool, "=", c, t))
	return c
}

func (st *State) watermark() *Term { return Add(st.allocB, IntLit(int64(st.allocOff))) }

func (st *State) allocRef() *Term {
	r := st.define("ref", st.watermark())
	st.allocOff++
	if st.freshRefs == nil {
		st.freshRefs = map[string]bool{}
	}
	st.freshRefs[r.S] = true
	return r
}

// strLit returns the term of a string literal.
func (st *State) strLit(s string) *Term {
	if nativeStrings {
		return &Term{S: smtString(s), Sort: SStr, Lit: s}
	}
	if t, ok := st.strlits[s]; ok {
		return t
	}
	name := fmt.Sprintf("str!%d!%s", len(st.strlits), sanitize(s))
	raw := st.declare(name, SStr)
	t := &Term{S: raw.S, Sort: SStr, Lit: s}
	st.strlits[s] = t
	lenF := st.declareFun("str_len", []Sort{SStr}, SInt)
	st.assume(Eq(App(SInt, lenF, raw), IntLit(int64(len(s)))))
	if s == "" {
		// the empty string is the only string of length 0
		x := Const("s!qe", SStr)
		st.assume(Forall([]*Term{x}, Implies(Eq(App(SInt, lenF, x), IntLit(0)), Eq(x, raw)), App(SInt, lenF, x)))
	}
	return t
}

func smtString(s string) string {
	var b strings.Builder
	b.WriteByte('"')
	for _, r := range s {
		switch {
		case r == '"':
			b.WriteString(`""`)
		case r < 32 || r > 126 || r == '\\':
			fmt.Fprintf(&b, "\\u{%x}", r)
		default:
			b.WriteRune(r)
		}
	}
	b.WriteByte('"')
	return b.String()
}

func sanitize(s string) string {
	var b strings.Builder
	for _, c := range s {
		if c >= 'a' && c <= 'z' || c >= 'A' && c <= 'Z' || c >= '0' && c <= '9' {
			b.WriteRune(c)
		} else {
			b.WriteByte('_')
		}
		if b.Len() > 16 {
			break
		}
	}
	return b.String()
}

func (st *State) strLen(s *Term) *Term {
	if nativeStrings {
		return App(SInt, "str.len", s)
	}
	if l, ok := s.Lit.(string); ok {
		return IntLit(int64(len(l)))
	}
	f := st.declareFun("str_len", []Sort{SStr}, SInt)
	if !st.declared["axiom:str_len_nonneg"] {
		st.declared["axiom:str_len_nonneg"] = true
		x := Const("s!qlen", SStr)
		st.assume(Forall([]*Term{x}, Ge(App(SInt, f, x), IntLit(0)), App(SInt, f, x)))
	}
	return App(SInt, f, s)
}

func (st *State) strPrefix(s, p *Term) *Term {
	// hasPrefix(s, p): p is a prefix of s
	if nativeStrings {
		return App(SBool, "str.prefixof", p, s)
	}
	st.declareFun("str_len", []Sort{SStr}, SInt)
	f := st.declareFun("str_hasprefix", []Sort{SStr, SStr}, SBool)
	if !st.declared["ax:str_hasprefix"] {
		st.declared["ax:str_hasprefix"] = true
		st.decls = append(st.decls,
			fmt.Sprintf("(assert (forall ((s Str)) (! (%s s s) :pattern ((%s s s)))))", f, f),
			fmt.Sprintf("(assert (forall ((s Str) (p Str)) (! (=> (%s s p) (<= (str_len p) (str_len s))) :pattern ((%s s p)))))", f, f))
		st.declareFun("str_len", []Sort{SStr}, SInt)
	}
	return App(SBool, f, s, p)
}

func (st *State) strConcat(a, b *Term) *Term {
	if nativeStrings {
		return App(SStr, "str.++", a, b)
	}
	al, aok := a.Lit.(string)
	bl, bok := b.Lit.(string)
	if aok && bok {
		return st.strLit(al + bl)
	}
	f := st.declareFun("str_concat", []Sort{SStr, SStr}, SStr)
	r := App(SStr, f, a, b)
	if !strings.Contains(r.S, "!b") && !strings.Contains(r.S, "!q") {
		st.assume(Eq(st.strLen(r), Add(st.strLen(a), st.strLen(b))))
	}
	return r
}

// ---------------------------------------------------------------------------
// Heap arrays

// displayKey is the user-facing name of a heap array key, used by modifies
// patterns: package paths are shortened to the last element.
func displayKey(key string) string {
	parts := strings.Split(key, "|")
	for i, p := range parts {
		parts[i] = shortenType(p)
	}
	return strings.Join(parts, ":")
}

func shortenType(s string) string {
	// replace every "a/b/c.T" by "c.T"
	var b strings.Builder
	i := 0
	for i < len(s) {
		j := i
		for j < len(s) && (s[j] == '/' || s[j] == '.' || s[j] == '_' || s[j] == '-' || s[j] >= 'a' && s[j] <= 'z' || s[j] >= 'A' && s[j] <= 'Z' || s[j] >= '0' && s[j] <= '9') {
			j++
		}
		if j > i {
			seg := s[i:j]
			if k := strings.LastIndex(seg, "/"); k >= 0 {
				seg = seg[k+1:]
			}
			b.WriteString(seg)
			i = j
		} else {
			b.WriteByte(s[i])
			i++
		}
	}
	return b.String()
}

func matchKey(patterns []string, key string) bool {
	d := displayKey(key)
	for _, p := range patterns {
		if p == "*" {
			return true
		}
		if ok, _ := path.Match(p, d); ok {
			return true
		}
		if strings.HasSuffix(p, "*") && strings.HasPrefix(d, strings.TrimSuffix(p, "*")) {
			return true
		}
	}
	return false
}

func (ev havocEvent) matches(key string) bool {
	if len(ev.Except) > 0 && matchKey(ev.Except, key) {
		return false
	}
	if ev.Patterns == nil {
		return true
	}
	return matchKey(ev.Patterns, key)
}

func (st *State) keyInfo(key string, s Sort, isRef bool) {
	if _, ok := st.e.keySort[key]; !ok {
		st.e.keySort[key] = s
		st.e.keyIsRef[key] = isRef
	}
}

// heapGet returns the current version of array key in view h.
func (st *State) heapGet(h *HeapView, key string, s Sort, isRef bool) *Term {
	if t, ok := h.vers[key]; ok {
		return t
	}
	st.keyInfo(key, s, isRef)
	epoch := 0
	var wm *Term
	var keepEv *havocEvent
	for i := 0; i < h.logLen && i < len(st.havocLog); i++ {
		if st.havocLog[i].matches(key) {
			epoch = st.havocLog[i].ID
			wm = st.havocLog[i].Watermark
			keepEv = nil
			if st.havocLog[i].KeepFrom != nil || st.havocLog[i].KeepBelow != nil {
				keepEv = &st.havocLog[i]
				keepEv.Index = i
			}
		}
	}
	name := key
	if epoch > 0 {
		name = fmt.Sprintf("%s@%d", key, epoch)
	}
	fresh := !st.declared[sym(name)]
	t := st.declare(name, s)
	if fresh && isRef && st.e.refAxioms {
		if wm == nil {
			wm = Const("A0", SInt)
		}
		st.refRangeAxiom(t, wm)
	}
	if fresh && (strings.HasSuffix(key, "$l") || strings.HasSuffix(key, "$c")) {
		st.nonNegAxiom(t)
	}
	if fresh && keepEv != nil && keepEv.KeepBelow != nil && s.IsArray() && (strings.HasPrefix(key, "F|") || strings.HasPrefix(key, "B|") || strings.HasPrefix(key, "E|") || strings.HasPrefix(key, "MH|") || strings.HasPrefix(key, "MV|")) {
		if i1, _ := s.ArrayParts(); i1 == SInt {
			prev, ok := keepEv.Prev[key]
			if !ok {
				// never written on this path before the event: the array as it was just before the event
				prev = st.heapGet(&HeapView{vers: map[string]*Term{}, logLen: keepEv.Index}, key, s, isRef)
			}
			v := Const("i!qkeep", SInt)
			st.assume(Forall([]*Term{v}, Implies(And(Ge(v, IntLit(0)), Lt(v, keepEv.KeepBelow)), Eq(Select(t, v), Select(prev, v))), Select(t, v)))
		}
	}
	if fresh && keepEv != nil && keepEv.KeepFrom != nil && s.IsArray() {
		if prev, ok := keepEv.Prev[key]; ok && (strings.HasPrefix(key, "F|") || strings.HasPrefix(key, "B|") || strings.HasPrefix(key, "E|") || strings.HasPrefix(key, "MH|") || strings.HasPrefix(key, "MV|")) {
			if i1, _ := s.ArrayParts(); i1 == SInt {
				v := Const("i!qkeep", SInt)
				conds := []*Term{Ge(v, keepEv.KeepFrom)}
				for _, x := range keepEv.KeepExcept {
					conds = append(conds, Neq(v, x))
				}
				st.assume(Forall([]*Term{v}, Implies(And(conds...), Eq(Select(t, v), Select(prev, v))), Select(t, v)))
			}
		}
	}
	h.vers[key] = t
	return t
}

// havocKeeping is havoc for code that cannot reach the objects this unit allocated itself (see havocEvent.KeepFrom).
func (st *State) havocKeeping(patterns []string, keepFrom *Term, except []*Term) {
	prev := map[string]*Term{}
	probe := havocEvent{Patterns: patterns}
	for k, v := range st.heap.vers {
		if probe.matches(k) {
			prev[k] = v
		}
	}
	st.havoc(patterns, nil)
	ev := &st.havocLog[len(st.havocLog)-1]
	ev.KeepFrom, ev.KeepExcept, ev.Prev = keepFrom, except, prev
}

// havocFresh is havoc for code that changes the matching arrays only at objects it allocates itself.
func (st *State) havocFresh(patterns []string) {
	prev := map[string]*Term{}
	probe := havocEvent{Patterns: patterns}
	for k, v := range st.heap.vers {
		if probe.matches(k) {
			prev[k] = v
		}
	}
	below := st.define("allocwm", st.watermark())
	st.havoc(patterns, nil)
	ev := &st.havocLog[len(st.havocLog)-1]
	ev.KeepBelow, ev.Prev = below, prev
}

// nonNegAxiom: slice headers stored in the heap have non-negative length, offset and capacity.
func (st *State) nonNegAxiom(arr *Term) {
	s := arr.Sort
	if !s.IsArray() {
		st.assume(Ge(arr, IntLit(0)))
		return
	}
	i1, e1 := s.ArrayParts()
	if !e1.IsArray() {
		v := Const("i!q", i1)
		sel := Select(arr, v)
		st.assume(Forall([]*Term{v}, Ge(sel, IntLit(0)), sel))
		return
	}
	i2, _ := e1.ArrayParts()
	v1, v2 := Const("i!q", i1), Const("j!q", i2)
	sel := Select(Select(arr, v1), v2)
	st.assume(Forall([]*Term{v1, v2}, Ge(sel, IntLit(0)), sel))
}

func (st *State) refRangeAxiom(arr *Term, wm *Term) {
	s := arr.Sort
	if !s.IsArray() {
		st.assume(And(Ge(arr, IntLit(0)), Lt(arr, wm)))
		return
	}
	i1, e1 := s.ArrayParts()
	if !e1.IsArray() {
		v := Const("i!q", i1)
		sel := Select(arr, v)
		st.assume(Forall([]*Term{v}, And(Ge(sel, IntLit(0)), Lt(sel, wm)), sel))
		return
	}
	i2, _ := e1.ArrayParts()
	v1, v2 := Const("i!q", i1), Const("j!q", i2)
	sel := Select(Select(arr, v1), v2)
	st.assume(Forall([]*Term{v1, v2}, And(Ge(sel, IntLit(0)), Lt(sel, wm)), sel))
}

func (st *State) heapSet(key string, v *Term) {
	st.nver[key]++
	name := fmt.Sprintf("%s#%d", key, st.nver[key])
	c := st.declare(name, v.Sort)
	st.asserts = append(st.asserts, App(SBool, "=", c, v))
	st.heap.vers[key] = c
}

type resultSlice struct {
	key string // element array key prefix ("E|<elem type>")
	w0  *Term
}

// arrDef records that a version of a two-level array is "prev with the inner array at idx replaced by val".
type arrDef struct{ prev, idx, val *Term }

func (st *State) heapSetInner(key string, prev, idx, val *Term) {
	st.heapSet(key, Store(prev, idx, val))
	if st.arrDefs == nil {
		st.arrDefs = map[string]arrDef{}
	}
	st.arrDefs[st.heap.vers[key].S] = arrDef{prev, idx, val}
}

// isOldTerm: as a reference, the term denotes an object that existed at entry: a literal, a parameter, a
// value read from an entry-state array (any index: entry-state arrays only hold entry-state references),
// or an ite of such terms.
func isOldTerm(t *Term) bool { return isOldStr(t.S) }

func sexpArgs(s string) []string {
	// s = "(op a b c)" -> [op a b c] splitting at top level, respecting |quoted symbols|
	s = s[1 : len(s)-1]
	var out []string
	depth, start, quoted := 0, 0, false
	for i := 0; i < len(s); i++ {
		c := s[i]
		switch {
		case c == '|':
			quoted = !quoted
		case quoted:
		case c == '(':
			depth++
		case c == ')':
			depth--
		case c == ' ' && depth == 0:
			if i > start {
				out = append(out, s[start:i])
			}
			start = i + 1
		}
	}
	if start < len(s) {
		out = append(out, s[start:])
	}
	return out
}

func isOldStr(s string) bool {
	if s == "" {
		return false
	}
	if s[0] != '(' {
		if s[0] >= '0' && s[0] <= '9' {
			return true
		}
		return strings.HasPrefix(s, "p.")
	}
	a := sexpArgs(s)
	if len(a) == 0 {
		return false
	}
	switch a[0] {
	case "select":
		if len(a) != 3 {
			return false
		}
		arr := a[1]
		if arr[0] == '(' {
			// nested select of an entry-state two-level array
			return isOldStr(arr)
		}
		return !strings.ContainsAny(arr, "#@") && !(strings.Contains(arr, "!") && !strings.HasPrefix(arr, "|"))
	case "ite":
		return len(a) == 4 && isOldStr(a[2]) && isOldStr(a[3])
	}
	return false
}

// innerArray resolves the inner array stored at base in a two-level array version, looking through
// stores at provably different bases.
func (st *State) innerArray(version, base *Term) *Term {
	cur := version
	for i := 0; i < 64; i++ {
		d, ok := st.arrDefs[cur.S]
		if !ok {
			break
		}
		if d.idx.S == base.S {
			return d.val
		}
		fa, fb := st.freshRefs[d.idx.S], st.freshRefs[base.S]
		if (fa && fb) || (fa && isOldTerm(base)) || (fb && isOldTerm(d.idx)) {
			cur = d.prev
			continue
		}
		break
	}
	return Select(cur, base)
}

// havoc forgets the contents of all arrays matching the patterns (nil = all).
func (st *State) havoc(patterns []string, except []string) {
	ev := havocEvent{Patterns: patterns, Except: except, Watermark: nil}
	// the callee/loop may have allocated: move the allocation base
	nb := st.fresh("A", SInt)
	st.assume(Ge(nb, st.watermark()))
	st.allocB = nb
	st.allocOff = 0
	ev.Watermark = nb
	st.evCounter++
	ev.ID = st.evCounter
	st.havocLog = append(st.havocLog, ev)
	st.heap.logLen = len(st.havocLog)
	for k := range st.heap.vers {
		if ev.matches(k) {
			delete(st.heap.vers, k)
		}
	}
	for b, rs := range st.resultSlices {
		if ev.matches(rs.key + "|") {
			delete(st.resultSlices, b)
		}
	}
	for k := range st.shadow {
		for _, hk := range st.shadowKeys[k] {
			if ev.matches(hk) {
				delete(st.shadow, k)
				break
			}
		}
	}
	for _, p := range patterns {
		if strings.HasPrefix(p, "UB:") {
			// update builders may have been filled in by the havocked code: their engine-side assignment lists are stale
			if w, ok := st.ghostObj["ent"].(*entWorld); ok {
				for _, b := range w.builders {
					if b.Kind == "update" {
						b.Sym = true
					}
				}
			}
			break
		}
	}
}

func (st *State) snapshot() *HeapView { return st.heap.clone() }

// touchedKeys lists keys whose current version differs from the entry state. Only keys this path
// has looked at are considered; arrays that were havocked but never read are covered by
// uncoveredHavocs.
func (st *State) touchedKeys() []string {
	var out []string
	seen := map[string]bool{}
	for k := range st.heap.vers {
		seen[k] = true
	}
	for k := range seen {
		s, ok := st.e.keySort[k]
		if !ok || strings.HasPrefix(k, "UB|") || k == "S|ctx_done_seen" {
			continue // UB|: mirrors of engine-side update builders, not program state
		}
		cur := st.heapGet(st.heap, k, s, st.e.keyIsRef[k])
		pre := st.heapGet(st.pre, k, s, st.e.keyIsRef[k])
		if cur.S != pre.S {
			out = append(out, k)
		}
	}
	sort.Strings(out)
	return out
}

// cell addressing -----------------------------------------------------------

func (st *State) cellKey(a *AddrV, leaf Leaf) string {
	return a.Key + "|" + joinPath(a.Path, leaf.Path)
}

func (st *State) cellSort(a *AddrV, leaf Leaf) Sort {
	switch a.Kind {
	case "field", "box":
		return ArrS(SInt, leaf.Sort)
	case "elem":
		return ArrS(SInt, ArrS(SInt, leaf.Sort))
	case "global":
		return leaf.Sort
	}
	panic("cellSort " + a.Kind)
}

func (st *State) loadLeaf(h *HeapView, a *AddrV, leaf Leaf) *Term {
	key := st.cellKey(a, leaf)
	arr := st.heapGet(h, key, st.cellSort(a, leaf), leaf.IsRef)
	switch a.Kind {
	case "field", "box":
		return Select(arr, a.Base)
	case "elem":
		return Select(Select(arr, a.Base), a.Idx)
	default:
		return arr
	}
}

func shadowKey(a *AddrV) string {
	k := a.Key + "|" + a.Path + "@"
	if a.Base != nil {
		k += a.Base.S
	}
	if a.Idx != nil {
		k += "#" + a.Idx.S
	}
	return k
}

func isEngineVal(v SVal) bool {
	switch x := v.(type) {
	case *EntH, *bulkV:
		return true
	case *FuncV:
		return x.Fn != nil
	}
	return false
}

func (st *State) load(h *HeapView, a *AddrV) SVal {
	if h == st.heap {
		if v, ok := st.shadow[shadowKey(a)]; ok {
			return v
		}
		// i-th element of a query result slice: the i-th entity object of its block
		if a.Kind == "elem" && a.Path == "" {
			if rs, ok := st.resultSlices[a.Base.S]; ok && rs.key == a.Key && !strings.Contains(a.Idx.S, "!b") && !strings.Contains(a.Idx.S, "!q") {
				return Add(rs.w0, a.Idx)
			}
		}
	}
	if su, ok := a.Type.Underlying().(*types.Struct); ok && !isOpaque(a.Type) {
		// field by field, so that each field can come from the shadow memory
		sv := &StructV{Typ: a.Type}
		for i := 0; i < su.NumFields(); i++ {
			sv.F = append(sv.F, st.load(h, st.fieldAddr(a, i)))
		}
		return sv
	}
	ls := st.e.leaves(a.Type)
	ts := make([]*Term, 0, len(ls))
	for _, l := range ls {
		ts = append(ts, st.loadLeaf(h, a, l))
	}
	if len(ls) == 0 {
		return &StructV{Typ: a.Type}
	}
	return st.unflatten(&ts, a.Type)
}

func (st *State) store(a *AddrV, v SVal) {
	// engine-side values keep their identity in the shadow memory; any other store to the same
	// array drops shadow entries it might alias
	if a.Kind == "elem" && a.Base != nil {
		if rs, ok := st.resultSlices[a.Base.S]; ok && rs.key == a.Key {
			delete(st.resultSlices, a.Base.S)
		}
		if !st.freshRefs[a.Base.S] {
			for b, rs := range st.resultSlices {
				if rs.key == a.Key && !st.freshRefs[b] {
					delete(st.resultSlices, b)
				}
			}
		}
	}
	sk := shadowKey(a)
	prefix := a.Key + "|" + a.Path + "@"
	for k := range st.shadow {
		if strings.HasPrefix(k, prefix) && k != sk {
			// distinct cells of objects allocated on this path never alias; a store through any other base may
			if !(st.isFreshBase(a) && strings.HasPrefix(k, prefix)) {
				delete(st.shadow, k)
			}
		}
	}
	if v != nil && a.Kind != "global" {
		if st.shadow == nil {
			st.shadow = map[string]SVal{}
		}
		if st.shadowKeys == nil {
			st.shadowKeys = map[string][]string{}
		}
		st.shadow[sk] = v
		if _, ok := st.shadowKeys[sk]; !ok {
			var hks []string
			for _, l := range st.e.leaves(a.Type) {
				hks = append(hks, st.cellKey(a, l))
			}
			st.shadowKeys[sk] = hks // never mutated afterwards: shared between cloned states
		}
	} else {
		delete(st.shadow, sk)
	}
	if su, ok := a.Type.Underlying().(*types.Struct); ok && !isOpaque(a.Type) {
		if sv, ok := v.(*StructV); ok && len(sv.F) == su.NumFields() {
			delete(st.shadow, sk)
			for i := 0; i < su.NumFields(); i++ {
				st.store(st.fieldAddr(a, i), sv.F[i])
			}
			return
		}
	}
	ls := st.e.leaves(a.Type)
	if len(ls) == 0 {
		return
	}
	ts := st.flatten(v, a.Type)
	if len(ts) != len(ls) {
		st.unsupported("store: %d leaves vs %d terms for %s", len(ls), len(ts), typeKey(a.Type))
	}
	for i, l := range ls {
		key := st.cellKey(a, l)
		arr := st.heapGet(st.heap, key, st.cellSort(a, l), l.IsRef)
		val := ts[i]
		if val.Sort != l.Sort {
			if l.Sort == SReal && val.Sort == SInt {
				val = ToReal(val)
			} else {
				st.unsupported("store sort mismatch at %s: %s vs %s", key, val.Sort, l.Sort)
			}
		}
		switch a.Kind {
		case "field", "box":
			st.heapSet(key, Store(arr, a.Base, val))
		case "elem":
			st.heapSet(key, Store(arr, a.Base, Store(Select(arr, a.Base), a.Idx, val)))
		default:
			st.heapSet(key, val)
		}
	}
}

// isFreshBase: the cell belongs to an object allocated on this path (its base is an allocation term).
func (st *State) isFreshBase(a *AddrV) bool {
	if a.Base == nil {
		return false
	}
	return st.freshRefs[a.Base.S]
}

// ptrAddr converts a pointer value (to pointee type t) into an address.
func (st *State) ptrAddr(v SVal, t types.Type) *AddrV {
	switch x := v.(type) {
	case *AddrV:
		return x
	case *Term:
		if _, ok := t.Underlying().(*types.Struct); ok && !isOpaque(t) {
			return &AddrV{Kind: "field", Base: x, Key: "F|" + typeKey(t), Type: t}
		}
		return &AddrV{Kind: "box", Base: x, Key: "B|" + typeKey(t), Type: t}
	}
	st.unsupported("ptrAddr: %T", v)
	return nil
}

func (st *State) fieldAddr(a *AddrV, idx int) *AddrV {
	su, ok := a.Type.Underlying().(*types.Struct)
	if !ok {
		st.unsupported("fieldAddr on non-struct %s", typeKey(a.Type))
	}
	f := su.Field(idx)
	return &AddrV{Kind: a.Kind, Base: a.Base, Idx: a.Idx, Key: a.Key, Path: joinPath(a.Path, f.Name()), Type: f.Type()}
}

// map helpers ---------------------------------------------------------------

func (st *State) mapKeys(mt *types.Map) (hasKey, lenKey string, ksort Sort) {
	kl := st.e.leaves(mt.Key())
	if len(kl) != 1 {
		st.unsupported("map key type %s is not scalar", typeKey(mt.Key()))
	}
	base := typeKey(mt.Key()) + "|" + typeKey(mt.Elem())
	return "MH|" + base, "ML|" + base, kl[0].Sort
}

func (st *State) mapHas(h *HeapView, mt *types.Map, m, k *Term) *Term {
	hk, _, ks := st.mapKeys(mt)
	arr := st.heapGet(h, hk, ArrS(SInt, ArrS(ks, SBool)), false)
	return Select(Select(arr, m), k)
}

func (st *State) mapGet(h *HeapView, mt *types.Map, m, k *Term) SVal {
	_, _, ks := st.mapKeys(mt)
	ls := st.e.leaves(mt.Elem())
	if len(ls) == 0 {
		return &StructV{Typ: mt.Elem()}
	}
	base := typeKey(mt.Key()) + "|" + typeKey(mt.Elem())
	var ts []*Term
	for _, l := range ls {
		arr := st.heapGet(h, "MV|"+base+"|"+l.Path, ArrS(SInt, ArrS(ks, l.Sort)), l.IsRef)
		ts = append(ts, Select(Select(arr, m), k))
	}
	return st.unflatten(&ts, mt.Elem())
}

func (st *State) mapSet(mt *types.Map, m, k *Term, v SVal) {
	hk, _, ks := st.mapKeys(mt)
	arr := st.heapGet(st.heap, hk, ArrS(SInt, ArrS(ks, SBool)), false)
	st.heapSet(hk, Store(arr, m, Store(Select(arr, m), k, TTrue)))
	ls := st.e.leaves(mt.Elem())
	if len(ls) == 0 {
		return
	}
	base := typeKey(mt.Key()) + "|" + typeKey(mt.Elem())
	ts := st.flatten(v, mt.Elem())
	for i, l := range ls {
		key := "MV|" + base + "|" + l.Path
		a := st.heapGet(st.heap, key, ArrS(SInt, ArrS(ks, l.Sort)), l.IsRef)
		st.heapSet(key, Store(a, m, Store(Select(a, m), k, ts[i])))
	}
}

func (st *State) mapDelete(mt *types.Map, m, k *Term) {
	hk, _, ks := st.mapKeys(mt)
	arr := st.heapGet(st.heap, hk, ArrS(SInt, ArrS(ks, SBool)), false)
	st.heapSet(hk, Store(arr, m, Store(Select(arr, m), k, TFalse)))
}

func (st *State) mapLen(h *HeapView, mt *types.Map, m *Term) *Term {
	_, lk, _ := st.mapKeys(mt)
	// length is an uninterpreted function of the membership array of this map
	hk, _, ks := st.mapKeys(mt)
	arr := st.heapGet(h, hk, ArrS(SInt, ArrS(ks, SBool)), false)
	f := st.declareFun("card!"+sanitize(string(ks)), []Sort{ArrS(ks, SBool)}, SInt)
	_ = lk
	r := App(SInt, f, Select(arr, m))
	return r
}

// ---------------------------------------------------------------------------
// Fresh symbolic values of a Go type

func (st *State) freshVal(prefix string, t types.Type) SVal {
	if isOpaque(t) || isErrorType(t) {
		return st.fresh(prefix, SInt)
	}
	switch u := t.Underlying().(type) {
	case *types.Tuple:
		tv := &TupleV{}
		for i := 0; i < u.Len(); i++ {
			tv.Vs = append(tv.Vs, st.freshVal(fmt.Sprintf("%s.%d", prefix, i), u.At(i).Type()))
		}
		return tv
	case *types.Struct:
		sv := &StructV{Typ: t}
		for i := 0; i < u.NumFields(); i++ {
			sv.F = append(sv.F, st.freshVal(prefix+"."+u.Field(i).Name(), u.Field(i).Type()))
		}
		return sv
	case *types.Slice:
		s := &SliceV{Base: st.fresh(prefix+"$b", SInt), Off: IntLit(0), Len: st.fresh(prefix+"$l", SInt), Cap: st.fresh(prefix+"$c", SInt), Elem: u.Elem()}
		st.assume(And(Ge(s.Base, IntLit(0)), Lt(s.Base, st.watermark()), Ge(s.Len, IntLit(0)), Le(s.Len, s.Cap)))
		st.assume(Implies(Eq(s.Base, IntLit(0)), And(Eq(s.Len, IntLit(0)), Eq(s.Cap, IntLit(0)))))
		return s
	case *types.Interface:
		iv := &IfaceV{Tag: st.fresh(prefix+"$t", SInt), Val: st.fresh(prefix+"$v", SInt)}
		st.assume(Ge(iv.Tag, IntLit(0)))
		return iv
	case *types.Signature:
		return &FuncV{Sym: st.fresh(prefix+"$fn", SInt)}
	case *types.Pointer, *types.Map, *types.Chan:
		r := st.fresh(prefix, SInt)
		st.assume(And(Ge(r, IntLit(0)), Lt(r, st.watermark())))
		return r
	}
	ls := st.e.leaves(t)
	if len(ls) != 1 {
		st.unsupported("freshVal: type %s", typeKey(t))
	}
	v := st.fresh(prefix, ls[0].Sort)
	if b, ok := t.Underlying().(*types.Basic); ok && b.Info()&types.IsInteger != 0 {
		if lo, hi, ok := intRange(t); ok && (b.Info()&types.IsUnsigned != 0 || st.u.c.Checked) {
			st.assume(And(Ge(v, lo), Le(v, hi)))
		}
	}
	return v
}

func (st *State) zeroVal(t types.Type) SVal {
	if isOpaque(t) || isErrorType(t) {
		return IntLit(0)
	}
	switch u := t.Underlying().(type) {
	case *types.Struct:
		sv := &StructV{Typ: t}
		for i := 0; i < u.NumFields(); i++ {
			sv.F = append(sv.F, st.zeroVal(u.Field(i).Type()))
		}
		return sv
	case *types.Slice:
		z := IntLit(0)
		return &SliceV{Base: z, Off: z, Len: z, Cap: z, Elem: u.Elem()}
	case *types.Interface:
		return &IfaceV{Tag: IntLit(0), Val: IntLit(0)}
	case *types.Signature:
		return &FuncV{Sym: IntLit(0)}
	case *types.Basic:
		switch {
		case u.Info()&types.IsBoolean != 0:
			return TFalse
		case u.Info()&types.IsString != 0:
			return st.strLit("")
		case u.Info()&types.IsFloat != 0:
			return RealLit(0)
		}
		return IntLit(0)
	}
	return IntLit(0)
}

func (st *State) funcSym(fv *FuncV) *Term {
	if fv.Fn == nil {
		return IntLit(0)
	}
	id := st.e.typeID("func:" + fv.Fn.String())
	return IntLit(int64(1000000 + id))
}

// uncoveredHavocs lists havoc patterns of this path that the modifies clause does not cover.
func (st *State) uncoveredHavocs(mods []string) []string {
	var out []string
	covered := func(p string) bool {
		for _, m := range mods {
			if m == "*" || m == p {
				return true
			}
			if strings.HasSuffix(m, "*") && strings.HasPrefix(p, strings.TrimSuffix(m, "*")) {
				return true
			}
		}
		return false
	}
	for _, ev := range st.havocLog {
		if ev.Patterns == nil {
			if !covered("*") {
				out = append(out, "*")
			}
			continue
		}
		for _, p := range ev.Patterns {
			if strings.HasPrefix(p, "UB:") {
				continue // mirrors of engine-side update builders, not program state
			}
			if !covered(p) {
				out = append(out, p)
			}
		}
	}
	return out
}
