package main

import (
	"bytes"
	"context"
	"fmt"
	"os"
	"os/exec"
	"path/filepath"
	"strings"
	"sync"
	"time"
)

// SolveResult is the outcome of one obligation query.
type SolveResult struct {
	Status  string // "unsat" (proved), "sat" (refuted, model), "unknown", "timeout", "error"
	Solver  string
	Seconds float64
	Model   string
	Raw     string
}

type solverSpec struct {
	name string
	args func(file string, timeoutMs int) []string
	// transform adapts the script to the solver (cvc5 needs options first).
	transform func(script string) string
}

var solvers = []solverSpec{
	{"z3-new", func(f string, ms int) []string { return []string{"z3-new", fmt.Sprintf("-t:%d", ms), "-smt2", f} }, nil},
	{"z3", func(f string, ms int) []string { return []string{"z3", fmt.Sprintf("-t:%d", ms), "-smt2", f} }, nil},
	{"cvc5", func(f string, ms int) []string {
		return []string{"cvc5", "--lang=smt2", fmt.Sprintf("--tlimit=%d", ms), "--produce-models", "--incremental", f}
	}, func(s string) string {
		return strings.Replace(s, "(set-option :smt.mbqi true)\n", "", 1)
	}},
}

var tmpRoot string
var tmpOnce sync.Once
var tmpCounter int
var tmpMu sync.Mutex

func tmpFile(prefix string) string {
	tmpOnce.Do(func() {
		d, err := os.MkdirTemp("", "govc-")
		if err != nil {
			panic(err)
		}
		tmpRoot = d
	})
	tmpMu.Lock()
	tmpCounter++
	n := tmpCounter
	tmpMu.Unlock()
	return filepath.Join(tmpRoot, fmt.Sprintf("%s-%d.smt2", prefix, n))
}

func cleanupTmp() {
	if tmpRoot != "" {
		os.RemoveAll(tmpRoot)
	}
}

func runSolver(ctx context.Context, sp solverSpec, script string, timeout time.Duration) SolveResult {
	if sp.transform != nil {
		script = sp.transform(script)
	}
	f := tmpFile(sp.name)
	if err := os.WriteFile(f, []byte(script), 0o644); err != nil {
		return SolveResult{Status: "error", Solver: sp.name, Raw: err.Error()}
	}
	defer os.Remove(f)
	cctx, cancel := context.WithTimeout(ctx, timeout+2*time.Second)
	defer cancel()
	args := sp.args(f, int(timeout/time.Millisecond))
	cmd := exec.CommandContext(cctx, args[0], args[1:]...)
	var out bytes.Buffer
	cmd.Stdout = &out
	cmd.Stderr = &out
	start := time.Now()
	_ = cmd.Run()
	el := time.Since(start).Seconds()
	text := out.String()
	first := ""
	rest := ""
	lines := strings.Split(text, "\n")
	for i, l := range lines {
		l = strings.TrimSpace(l)
		if l == "sat" || l == "unsat" || l == "unknown" || l == "timeout" {
			first = l
			rest = strings.Join(lines[i+1:], "\n")
			break
		}
		if strings.HasPrefix(l, "(error") {
			// an error before the verdict means the script was not understood: never trust the verdict
			first = "error"
			break
		}
	}
	res := SolveResult{Solver: sp.name, Seconds: el, Raw: text}
	switch first {
	case "unsat":
		res.Status = "unsat"
	case "sat":
		res.Status = "sat"
		res.Model = rest
	case "unknown":
		res.Status = "unknown"
	case "timeout":
		res.Status = "timeout"
	default:
		if cctx.Err() != nil {
			res.Status = "timeout"
		} else if strings.Contains(text, "timeout") {
			res.Status = "timeout"
		} else {
			res.Status = "error"
		}
	}
	return res
}

// solve races the installed solvers on one script. Stage 1 runs the newest z3
// alone for a short time (most obligations are decided in milliseconds);
// stage 2 races the two remaining solvers with the remaining budget.
func solve(script string, total time.Duration, all bool) (SolveResult, []SolveResult) {
	ctx, cancel := context.WithCancel(context.Background())
	defer cancel()
	var tried []SolveResult
	if !all {
		stage1 := total / 3
		if stage1 > 4*time.Second {
			stage1 = 4 * time.Second
		}
		r := runSolver(ctx, solvers[0], script, stage1)
		tried = append(tried, r)
		if r.Status == "unsat" || r.Status == "sat" {
			return r, tried
		}
		ch := make(chan SolveResult, 3)
		rest := []solverSpec{solvers[1], solvers[2], solvers[0]}
		for _, sp := range rest {
			sp := sp
			go func() { ch <- runSolver(ctx, sp, script, total-stage1) }()
		}
		var best SolveResult
		got := 0
		for got < len(rest) {
			r := <-ch
			got++
			tried = append(tried, r)
			if r.Status == "unsat" || r.Status == "sat" {
				cancel()
				return r, tried
			}
			if best.Status == "" || best.Status == "error" {
				best = r
			}
		}
		return best, tried
	}
	// thorough: all three solvers; once one has decided, the others get a short grace period to agree or
	// disagree (a disagreement between solvers is reported as an error), then they are cancelled
	ch := make(chan SolveResult, len(solvers))
	for _, sp := range solvers {
		sp := sp
		go func() { ch <- runSolver(ctx, sp, script, total) }()
	}
	var best SolveResult
	var grace <-chan time.Time
	got := 0
	for got < len(solvers) {
		select {
		case r := <-ch:
			got++
			tried = append(tried, r)
			if r.Status == "unsat" || r.Status == "sat" {
				if best.Status == "unsat" || best.Status == "sat" {
					if best.Status != r.Status {
						return SolveResult{Status: "error", Solver: "disagreement", Raw: best.Solver + "=" + best.Status + " " + r.Solver + "=" + r.Status}, tried
					}
					continue
				}
				best = r
				if grace == nil {
					grace = time.After(3 * time.Second)
				}
			} else if best.Status == "" {
				best = r
			}
		case <-grace:
			cancel()
			return best, tried
		}
	}
	return best, tried
}

// runSolverBatch runs one incremental script with n check-sat commands and returns the n verdicts
// (missing ones are "unknown"). Any error in the output invalidates all verdicts after it.
func runSolverBatch(sp solverSpec, script string, perQuery time.Duration, n int) []string {
	f := tmpFile(sp.name + "-batch")
	if err := os.WriteFile(f, []byte(script), 0o644); err != nil {
		return nil
	}
	defer os.Remove(f)
	total := perQuery*time.Duration(n) + 5*time.Second
	ctx, cancel := context.WithTimeout(context.Background(), total)
	defer cancel()
	args := sp.args(f, int(perQuery/time.Millisecond))
	cmd := exec.CommandContext(ctx, args[0], args[1:]...)
	var out bytes.Buffer
	cmd.Stdout = &out
	cmd.Stderr = &out
	_ = cmd.Run()
	var res []string
	for _, l := range strings.Split(out.String(), "\n") {
		l = strings.TrimSpace(l)
		switch l {
		case "sat", "unsat", "unknown", "timeout":
			res = append(res, l)
		default:
			if strings.HasPrefix(l, "(error") {
				return res // nothing after an error is trusted
			}
		}
	}
	return res
}
