# sourced by every check: offline Go toolchain able to load /repo (go.mod needs go1.24)
export PATH=/root/go/pkg/mod/golang.org/toolchain@v0.0.1-go1.24.1.linux-amd64/bin:$PATH
export GOFLAGS=-mod=mod GOPROXY=off GOTOOLCHAIN=local GOSUMDB=off
