package actions

import (
	"testing"

	"github.com/google/uuid"
)

// Replay of the counterexample to actions.WakePublishListeners#ensures:all_listed (property C10):
// model: len(subIDs) = 2, subIDs[0] has no registered waiter, subIDs[1] has waiter c.
func TestVerifReplay_F1_WakePublishListeners(t *testing.T) {
	a, b := uuid.New(), uuid.New()
	w := PublishAwaiter(b)
	defer CancelPublishAwaiter(b, w)
	WakePublishListeners(true, a, b)
	select {
	case <-w:
	default:
		t.Fatal("waiter on the second listed subscription was not woken")
	}
}
