package actions

import (
	"context"
	"encoding/json"
	"testing"
	"time"

	"github.com/stretchr/testify/require"

	"go.6river.tech/mmmbbb/ent"
	"go.6river.tech/mmmbbb/ent/enttest"
)

// Replay of the second counterexample to actions.deliverToSubscription#ensures:pred_same_key (property C05):
// the ordering predecessor is only searched among deliveries whose message belongs to the same topic as the
// new message. On an ordered dead-letter subscription D, a message with key K forwarded from another topic is
// therefore not chained with messages of key K published to D's own topic: the later-published one is
// delivered while the earlier one is still outstanding.
func TestVerifReplay_F9_PredecessorAcrossTopics(t *testing.T) {
	client := enttest.ClientForTest(t)
	enttest.ResetTables(t, client)
	ctx := t.Context()
	src := createTopicClient(t, ctx, client, 0)
	dl := createTopicClient(t, ctx, client, 1)
	subD := createSubscriptionClient(t, ctx, client, dl, 1,
		func(sc *ent.SubscriptionCreate) *ent.SubscriptionCreate { return sc.SetOrderedDelivery(true) })
	subS := createSubscriptionClient(t, ctx, client, src, 0,
		func(sc *ent.SubscriptionCreate) *ent.SubscriptionCreate {
			return sc.SetDeadLetterTopic(dl).SetMaxDeliveryAttempts(1)
		})
	publish := func(topic *ent.Topic, payload string) {
		p, _ := json.Marshal(payload)
		a := NewPublishMessage(PublishMessageParams{TopicID: &topic.ID, Payload: p, OrderKey: "K"})
		require.NoError(t, client.DoCtxTx(ctx, nil, func(ctx context.Context, tx *ent.Tx) error { return a.Execute(ctx, tx) }))
		time.Sleep(2 * time.Millisecond)
	}
	pull := func(sub *ent.Subscription) []*SubscriptionMessageDelivery {
		a := NewGetSubscriptionMessages(GetSubscriptionMessagesParams{ID: &sub.ID, MaxMessages: 10, MaxBytes: 1_000_000, MaxWait: time.Nanosecond})
		require.NoError(t, a.ExecuteClient(ctx, client))
		r, _ := a.Results()
		return r.Deliveries
	}
	text := func(d *SubscriptionMessageDelivery) string {
		var s string
		_ = json.Unmarshal(d.Payload, &s)
		return s
	}
	// "old" is published first (to the source topic), delivered once on S and nacked: attempts (1) >= max (1) => dead-lettered to D
	publish(src, "old")
	got := pull(subS)
	require.Len(t, got, 1)
	nack := NewNackDeliveries(got[0].ID)
	require.NoError(t, client.DoCtxTx(ctx, nil, func(ctx context.Context, tx *ent.Tx) error { return nack.Execute(ctx, tx) }))
	// "new" is published later, directly to D's topic, with the same ordering key
	publish(dl, "new")
	// only "old" may be delivered on D now; "new" has to wait until "old" is acknowledged
	for _, d := range pull(subD) {
		if text(d) == "new" {
			t.Fatalf("ordering violated on the dead-letter subscription: %q delivered while earlier-published %q (same key) is still outstanding", "new", "old")
		}
	}
}
