package services

import (
	"testing"

	"go.6river.tech/mmmbbb/ent/enttest"
	"go.6river.tech/mmmbbb/grpc/pubsubpb"
)

// Replay of the failed obligation services.(*subscriberServer).ListSnapshots#ensures:page_complete (property C12):
// a page that is not full must contain every snapshot of the requested project. ListSnapshots filtered snapshot names
// by the project's *subscriptions* prefix ("projects/p/subscriptions/"), which no snapshot name
// ("projects/p/snapshots/x") has, so the listing was always empty.
func TestVerifReplay_F2_ListSnapshotsListsProjectSnapshots(t *testing.T) {
	client := enttest.ClientForTest(t)
	ctx := t.Context()
	pub := &publisherServer{client: client}
	sub := &subscriberServer{client: client}
	const topic = "projects/vr/topics/t"
	const subName = "projects/vr/subscriptions/s"
	const snapName = "projects/vr/snapshots/x"
	if _, err := pub.CreateTopic(ctx, &pubsubpb.Topic{Name: topic}); err != nil {
		t.Fatal(err)
	}
	if _, err := sub.CreateSubscription(ctx, &pubsubpb.Subscription{Name: subName, Topic: topic}); err != nil {
		t.Fatal(err)
	}
	if _, err := sub.CreateSnapshot(ctx, &pubsubpb.CreateSnapshotRequest{Name: snapName, Subscription: subName}); err != nil {
		t.Fatal(err)
	}
	// a snapshot of another project must not be listed
	if _, err := pub.CreateTopic(ctx, &pubsubpb.Topic{Name: "projects/other/topics/t"}); err != nil {
		t.Fatal(err)
	}
	if _, err := sub.CreateSubscription(ctx, &pubsubpb.Subscription{Name: "projects/other/subscriptions/s", Topic: "projects/other/topics/t"}); err != nil {
		t.Fatal(err)
	}
	if _, err := sub.CreateSnapshot(ctx, &pubsubpb.CreateSnapshotRequest{Name: "projects/other/snapshots/x", Subscription: "projects/other/subscriptions/s"}); err != nil {
		t.Fatal(err)
	}
	resp, err := sub.ListSnapshots(ctx, &pubsubpb.ListSnapshotsRequest{Project: "projects/vr"})
	if err != nil {
		t.Fatal(err)
	}
	if len(resp.Snapshots) != 1 || resp.Snapshots[0].Name != snapName {
		t.Fatalf("ListSnapshots(projects/vr) = %v, want exactly %s", resp.Snapshots, snapName)
	}
	if resp.NextPageToken != "" {
		t.Fatalf("unexpected next page token %q", resp.NextPageToken)
	}
}
