package services

import (
	"context"
	"testing"
	"time"

	"google.golang.org/grpc/codes"
	"google.golang.org/grpc/status"
	"google.golang.org/protobuf/types/known/durationpb"
	"google.golang.org/protobuf/types/known/fieldmaskpb"
	"google.golang.org/protobuf/types/known/timestamppb"

	"go.6river.tech/mmmbbb/ent/enttest"
	"go.6river.tech/mmmbbb/grpc/pubsubpb"
)

// Replays of the counterexamples to the nopanic obligations of the Publisher/Subscriber handlers (property C16).
// Each request is one that protobuf decoding can produce; the handler must answer with a status, not panic
// (grpc/server.go installs no recovery interceptor: a panic terminates the server).
func TestVerifReplay_F4_HandlersDoNotPanic(t *testing.T) {
	client := enttest.ClientForTest(t)
	ctx := t.Context()
	pub := &publisherServer{client: client}
	sub := &subscriberServer{client: client}
	const topic = "projects/vr/topics/t"
	const subName = "projects/vr/subscriptions/s"
	if _, err := pub.CreateTopic(ctx, &pubsubpb.Topic{Name: topic}); err != nil {
		t.Fatal(err)
	}
	if _, err := sub.CreateSubscription(ctx, &pubsubpb.Subscription{Name: subName, Topic: topic}); err != nil {
		t.Fatal(err)
	}
	cases := map[string]func(ctx context.Context) error{
		"Pull max_messages=0": func(ctx context.Context) error {
			_, err := sub.Pull(ctx, &pubsubpb.PullRequest{Subscription: subName, ReturnImmediately: true})
			return err
		},
		"Pull max_messages=-1": func(ctx context.Context) error {
			_, err := sub.Pull(ctx, &pubsubpb.PullRequest{Subscription: subName, MaxMessages: -1, ReturnImmediately: true})
			return err
		},
		"UpdateSubscription without subscription": func(ctx context.Context) error {
			_, err := sub.UpdateSubscription(ctx, &pubsubpb.UpdateSubscriptionRequest{UpdateMask: &fieldmaskpb.FieldMask{Paths: []string{"labels"}}})
			return err
		},
		"UpdateTopic without topic": func(ctx context.Context) error {
			_, err := pub.UpdateTopic(ctx, &pubsubpb.UpdateTopicRequest{UpdateMask: &fieldmaskpb.FieldMask{Paths: []string{"labels"}}})
			return err
		},
		"ModifyPushConfig without push_config": func(ctx context.Context) error {
			_, err := sub.ModifyPushConfig(ctx, &pubsubpb.ModifyPushConfigRequest{Subscription: subName})
			return err
		},
		"CreateSubscription negative expiration ttl": func(ctx context.Context) error {
			_, err := sub.CreateSubscription(ctx, &pubsubpb.Subscription{Name: subName + "1", Topic: topic,
				ExpirationPolicy: &pubsubpb.ExpirationPolicy{Ttl: durationpb.New(-time.Nanosecond)}})
			return err
		},
		"CreateSubscription negative retention": func(ctx context.Context) error {
			_, err := sub.CreateSubscription(ctx, &pubsubpb.Subscription{Name: subName + "2", Topic: topic,
				MessageRetentionDuration: durationpb.New(-time.Nanosecond)})
			return err
		},
		"CreateSubscription dead_letter_policy without topic": func(ctx context.Context) error {
			_, err := sub.CreateSubscription(ctx, &pubsubpb.Subscription{Name: subName + "3", Topic: topic,
				DeadLetterPolicy: &pubsubpb.DeadLetterPolicy{}})
			return err
		},
		"CreateSubscription negative max_delivery_attempts": func(ctx context.Context) error {
			_, err := sub.CreateSubscription(ctx, &pubsubpb.Subscription{Name: subName + "4", Topic: topic,
				DeadLetterPolicy: &pubsubpb.DeadLetterPolicy{DeadLetterTopic: topic, MaxDeliveryAttempts: -1}})
			return err
		},
		"Seek to the zero instant": func(ctx context.Context) error {
			_, err := sub.Seek(ctx, &pubsubpb.SeekRequest{Subscription: subName,
				Target: &pubsubpb.SeekRequest_Time{Time: &timestamppb.Timestamp{Seconds: -62135596800}}})
			return err
		},
		"Seek to an empty snapshot name": func(ctx context.Context) error {
			_, err := sub.Seek(ctx, &pubsubpb.SeekRequest{Subscription: subName, Target: &pubsubpb.SeekRequest_Snapshot{}})
			return err
		},
	}
	for name, call := range cases {
		t.Run(name, func(t *testing.T) {
			defer func() {
				if p := recover(); p != nil {
					t.Fatalf("handler panicked (would terminate the server): %v", p)
				}
			}()
			cctx, cancel := context.WithTimeout(ctx, 5*time.Second)
			defer cancel()
			err := call(cctx)
			if err == nil {
				return
			}
			if _, ok := status.FromError(err); !ok {
				t.Fatalf("not a gRPC status: %v", err)
			}
			if status.Code(err) == codes.Unknown {
				t.Logf("answered with Unknown: %v", err)
			}
		})
	}
}
