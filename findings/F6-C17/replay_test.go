package sqltypes

import (
	"testing"
	"time"
)

// Replay of the failed obligations sqltypes.adjustDuration#nooverflow:arith (property C17: every stored duration is
// read back exactly, for all PostgreSQL-style interval strings). An interval that does not fit a time.Duration
// (about 292 years) was accepted with a nil error and a wrapped-around value.
func TestVerifReplay_F6_IntervalOutOfRangeIsRejected(t *testing.T) {
	for _, s := range []string{"300 years 00:00:00", "9223372036854775807 days 00:00:00", "2562047:47:16.854775808", "200 years 100 years 00:00:00"} {
		d, err := ParsePostgreSQLInterval(s)
		if err == nil {
			t.Errorf("ParsePostgreSQLInterval(%q) = %v, nil: an interval that does not fit must be rejected, not wrapped", s, d)
		}
	}
	// the largest representable values still parse exactly
	if d, err := ParsePostgreSQLInterval("2562047:47:16.854775807"); err != nil || d != time.Duration(1<<63-1) {
		t.Errorf("max duration: got %v, %v", d, err)
	}
	var i Interval
	if err := i.Scan("300 years 00:00:00"); err == nil {
		t.Errorf("Scan accepted an out-of-range interval as %v", time.Duration(i))
	}
}
