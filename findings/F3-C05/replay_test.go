package actions

import (
	"context"
	"encoding/json"
	"testing"
	"time"

	"github.com/stretchr/testify/require"

	"go.6river.tech/mmmbbb/ent"
	"go.6river.tech/mmmbbb/ent/enttest"
)

// Replay of the counterexample to actions.deliverToSubscription#ensures:pred_same_key (property C05):
// the ordering predecessor chosen for a keyed message is the latest unexpired delivery of the subscription
// whatever its key. History: publish K, publish un-keyed, publish K; pull; ack only the un-keyed message:
// the second K message is delivered while the first K message is still outstanding.
func TestVerifReplay_F3_PredecessorIgnoresKey(t *testing.T) {
	client := enttest.ClientForTest(t)
	enttest.ResetTables(t, client)
	ctx := t.Context()
	topic := createTopicClient(t, ctx, client, 0)
	sub := createSubscriptionClient(t, ctx, client, topic, 0,
		func(sc *ent.SubscriptionCreate) *ent.SubscriptionCreate { return sc.SetOrderedDelivery(true) })
	publish := func(payload, key string) {
		p, _ := json.Marshal(payload)
		a := NewPublishMessage(PublishMessageParams{TopicID: &topic.ID, Payload: p, OrderKey: key})
		require.NoError(t, client.DoCtxTx(ctx, nil, func(ctx context.Context, tx *ent.Tx) error { return a.Execute(ctx, tx) }))
		time.Sleep(2 * time.Millisecond)
	}
	pull := func() []*SubscriptionMessageDelivery {
		a := NewGetSubscriptionMessages(GetSubscriptionMessagesParams{ID: &sub.ID, MaxMessages: 10, MaxBytes: 1_000_000, MaxWait: time.Nanosecond})
		require.NoError(t, a.ExecuteClient(ctx, client))
		r, _ := a.Results()
		return r.Deliveries
	}
	text := func(d *SubscriptionMessageDelivery) string {
		var s string
		_ = json.Unmarshal(d.Payload, &s)
		return s
	}
	publish("K#1", "K")
	publish("plain", "")
	publish("K#2", "K")
	got := pull()
	var plain *SubscriptionMessageDelivery
	for _, d := range got {
		if text(d) == "plain" {
			plain = d
		}
		require.NotEqual(t, "K#2", text(d), "K#2 delivered together with K#1")
	}
	require.NotNil(t, plain)
	ack := NewAckDeliveries(plain.ID)
	require.NoError(t, client.DoCtxTx(ctx, nil, func(ctx context.Context, tx *ent.Tx) error { return ack.Execute(ctx, tx) }))
	// K#1 is still outstanding (delivered, not acknowledged): K#2 must not be delivered
	for _, d := range pull() {
		if text(d) == "K#2" {
			t.Fatalf("ordering violated: K#2 delivered while the earlier K#1 is still outstanding")
		}
	}
}
