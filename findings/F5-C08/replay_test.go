package filter

import (
	"strings"
	"testing"
)

// Replay of the failed obligation filter.formatAttrName#ensures:everything_else_quoted (property C08):
// a name that does not lex as an identifier must be printed quoted. The empty attribute name was printed
// verbatim (as nothing), so a filter that parses - `attributes:""` - printed as `attributes:`, which does not
// parse back.
func TestVerifReplay_F5_EmptyAttributeNameRoundTrips(t *testing.T) {
	if got := formatAttrName(""); got != `""` {
		t.Errorf(`formatAttrName("") = %q, want %q`, got, `""`)
	}
	for _, src := range []string{`attributes:""`, `NOT attributes:""`, `attributes:"" AND attributes:x`} {
		f, err := Parser.ParseString("replay", src)
		if err != nil {
			t.Fatalf("parse %q: %v", src, err)
		}
		var sb strings.Builder
		if err := f.AsFilter(&sb); err != nil {
			t.Fatalf("print %q: %v", src, err)
		}
		if _, err := Parser.ParseString("replay", sb.String()); err != nil {
			t.Errorf("%q printed as %q, which does not parse back: %v", src, sb.String(), err)
		}
	}
}
