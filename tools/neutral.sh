#!/bin/bash
# usage: neutral.sh [patch...]  -- the must-PASS corpus: behaviour-preserving refactorings of /repo (neutral/*.patch, written by
# a sub-agent that saw only the repository). Each is applied to a scratch copy and run against every claimed property;
# any VIOLATION line is a false alarm of the machinery. Prints PASS/ALARM per patch.
cd "$(dirname "$(readlink -f "$0")")/.."
allprops=$(python3 -c "import json;print(','.join(c['property_id'] for c in json.load(open('MANIFEST.json'))['checks']))")
ps=("$@"); [ ${#ps[@]} = 0 ] && ps=(neutral/*.patch)
propsfor(){ # the claimed properties with units in (or inlining code of) the packages a patch touches
  local dirs; dirs=$(grep '^+++ ' "$1" | sed 's#^+++ b/##; s#/[^/]*$##' | sort -u); local out=""
  for d in $dirs; do case $d in
    actions) out="$out C01 C02 C03 C04 C05 C06 C09 C10 C11 C13 C14 C15 C19";;
    services) out="$out C02 C03 C04 C09 C12 C16 C17";;
    filter) out="$out C07 C08 C01";;
    faults) out="$out C18";;
    grpc) out="$out C16 C18";;
    internal/sqltypes) out="$out C17";;
    ent) out="$out C09";;
    parse) out="$out C03 C04";;
    *) out="$allprops";;
  esac; done
  [ "$NEUTRAL_ALL" = 1 ] && out="$allprops"
  echo $out | tr ' ,' '\n\n' | sort -u | paste -sd,
}
run_one(){ p=$1
  out=$(./tools/runmutant.sh "$p" "$(propsfor $p)" 2>&1)
  if echo "$out" | grep -q "PATCH-FAILED\|GOVC-ERROR"; then echo "BROKEN   $p"; 
  elif echo "$out" | grep -q "^VIOLATION"; then echo "ALARM    $p  [$(echo "$out" | grep "^VIOLATION" | sed 's/.*property=\([^ ]*\).*obligation=\([^ ]*\) reason=\([^ ]*\).*/\1:\2:\3/' | sort -u | head -4 | tr '\n' ' ')]";
  else echo "PASS     $p  ($(propsfor $p))"; fi
}
export -f run_one propsfor; export allprops
printf '%s\n' "${ps[@]}" | xargs -P ${NEUTRAL_JOBS:-2} -I{} bash -c 'run_one {}' | sort
