#!/bin/bash
# usage: overlay_test.sh <repo-root> <pkg-rel-dir> <test-file> <run-regex>
# Runs an in-package test against the real code without writing to the repository (go test -overlay).
repo=$1; pkg=$2; file=$3; run=$4
d=$(mktemp -d /tmp/ovl-XXXXXX); trap 'rm -rf $d' EXIT
printf '{"Replace": {"%s/%s/zz_verif_replay_test.go": "%s"}}' "$repo" "$pkg" "$file" > $d/ov.json
cd $repo && GOFLAGS=-mod=mod GOPROXY=off go test -overlay $d/ov.json -vet=off -count=1 -timeout 120s -run "$run" ./$pkg/ 2>&1 | tail -15
exit ${PIPESTATUS[0]}
