#!/bin/bash
# usage: import_seed.sh <agent-dir e.g. /tmp/agent-C09/a> <seed-id e.g. C09a>
# Confirms a seeded change in a scratch worktree (suite green with it, demo fails with it, demo passes without it)
# and stores it as /verif/seeded/<id>/.
set -u
src=$1; id=$2
export GOFLAGS=-mod=mod GOPROXY=off
wt=$(mktemp -d /tmp/seedchk-XXXX)
rmdir $wt
git -C /repo worktree add -q --detach $wt HEAD || exit 2
cleanup(){ git -C /repo worktree remove --force $wt 2>/dev/null; rm -rf $wt; }
trap cleanup EXIT
dest=$(python3 -c "import json;print(json.load(open('$src/meta.json'))['demo_dest'])")
run=$(python3 -c "import json;print(json.load(open('$src/meta.json'))['demo_run'])")
log=$(mktemp)
cd $wt
# 1. demo passes on clean tree
cp $src/demo_test.go $wt/$dest
if ! (eval "$run") >$log 2>&1; then echo "$id: demo FAILS on clean tree"; tail -20 $log; exit 1; fi
rm $wt/$dest
# 2. apply; suite passes
git apply $src/patch.diff || { echo "$id: patch does not apply"; exit 1; }
suite_ok=0
for try in 1 2 3; do
  go test -vet=off -count=1 -timeout 25m ./... >$log 2>&1
  if ! grep -E "^(FAIL|---) " $log | grep -v "cmd/mmmbbb" | grep -q FAIL; then suite_ok=1; break; fi
done
if [ $suite_ok = 0 ]; then echo "$id: suite FAILS with patch"; grep -E "^(FAIL|--- FAIL)" $log | head; exit 1; fi
# 3. demo fails with patch
cp $src/demo_test.go $wt/$dest
if (eval "$run") >$log 2>&1; then echo "$id: demo PASSES with patch (not a break)"; exit 1; fi
mkdir -p /verif/seeded/$id
cp $src/patch.diff $src/demo_test.go /verif/seeded/$id/
python3 - <<PY
import json
m=json.load(open('$src/meta.json'))
m['confirmed']={'by':'tools/import_seed.sh in a scratch worktree of /repo HEAD','suite_with_patch':'pass (cmd/mmmbbb build failure is baseline)','demo_with_patch':'fail','demo_without_patch':'pass'}
json.dump(m,open('/verif/seeded/$id/meta.json','w'),indent=1)
PY
echo "$id: CONFIRMED"
