#!/bin/bash
# usage: mutants.sh [all]   -- runs every patch under mutants/ and seeded/ on scratch copies of /repo's HEAD, 4 at a time;
# prints KILLED/SURVIVED per patch. A patch under mutants/<id>/ is run against property <id> (with "all": against every
# claimed property); a patch under seeded/<id>{a,b}/ is always run against every claimed property, because a seeded change
# may be caught by a contract of a neighbouring property.
cd "$(dirname "$(readlink -f "$0")")/.."
allprops=$(python3 -c "import json;print(','.join(c['property_id'] for c in json.load(open('MANIFEST.json'))['checks']))")
mode=$1
run_one(){ p=$1; props=$2; out=$(./tools/runmutant.sh "$p" "$props" 2>&1); n=$(echo "$out" | grep -c "^VIOLATION"); if echo "$out" | grep -q PATCH-FAILED; then echo "PATCHFAIL $p"; elif echo "$out" | grep -q GOVC-ERROR; then echo "NOCOMPILE $p"; elif [ "$n" -gt 0 ]; then echo "KILLED   $p  [$(echo "$out" | grep "^VIOLATION" | sed 's/.*property=\([^ ]*\).*obligation=\([^ ]*\).*/\1:\2/' | sort -u | head -3 | tr '\n' ' ')]"; else echo "SURVIVED $p"; fi; }
export -f run_one
( for p in mutants/*/*.patch; do d=$(basename $(dirname $p)); if [ "$mode" = all ]; then echo "$p $allprops"; else echo "$p $d"; fi; done
  for p in seeded/*/patch.diff; do echo "$p $allprops"; done ) | xargs -P 4 -L 1 bash -c 'run_one $0 $1' | sort
