#!/bin/bash
# usage: mutants.sh [props]   -- runs every patch under mutants/ and seeded/ against the given properties
# (default: all claimed in MANIFEST.json) on scratch copies, 4 at a time; prints KILLED/SURVIVED per patch.
cd "$(dirname "$(readlink -f "$0")")/.."
props=${1:-$(python3 -c "import json;print(','.join(c['property_id'] for c in json.load(open('MANIFEST.json'))['checks']))")}
run_one(){ p=$1; out=$(./tools/runmutant.sh "$p" "$2" 2>&1); n=$(echo "$out" | grep -c "^VIOLATION"); if echo "$out" | grep -q PATCH-FAILED; then echo "PATCHFAIL $p"; elif echo "$out" | grep -q GOVC-ERROR; then echo "NOCOMPILE $p"; elif [ "$n" -gt 0 ]; then echo "KILLED   $p  [$(echo "$out" | grep "^VIOLATION" | sed 's/.*property=\([^ ]*\).*obligation=\([^ ]*\).*/\1:\2/' | sort -u | head -3 | tr '\n' ' ')]"; else echo "SURVIVED $p"; fi; }
export -f run_one
(ls mutants/*/*.patch; ls seeded/*/patch.diff) | xargs -P 4 -I{} bash -c "run_one {} $props" | sort
