#!/bin/bash
# usage: runmutant.sh <patch.diff> <props> [extra govc args]
# Applies a patch to a scratch copy of /repo's working tree (outside /repo and /verif), runs govc on it,
# prints the verdict lines and removes the copy.
patch=$(readlink -f "$1"); props=$2; shift 2
cd "$(dirname "$(readlink -f "$0")")/.." && . ./env.sh
d=$(mktemp -d /tmp/mut-XXXXXX)
trap 'rm -rf $d' EXIT
mkdir -p $d/repo
if [ -n "$RUNMUTANT_WORKTREE" ]; then rsync -a --exclude .git /repo/ $d/repo/; else git -C /repo archive HEAD | tar -x -C $d/repo; fi  # default: the committed tree: uncommitted edits in /repo (contracts in progress) do not leak into mutant runs
if ! (cd $d/repo && patch -p1 -s < "$patch"); then echo "PATCH-FAILED $patch"; exit 3; fi
./bin/govc check --props "$props" --repo $d/repo --evidence $d/ev --replays $d/rp --known known_findings.json --spec spec --bindings bindings.json "$@" 2>&1 | sed -e "s#$d/##g"
rc=${PIPESTATUS[0]}; [ "$rc" = 2 ] && echo "GOVC-ERROR (does the patched tree compile?)"; exit $rc
