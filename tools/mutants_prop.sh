#!/bin/bash
# usage: mutants_prop.sh <property-id>   -- runs the must-fail corpus of one property (mutants/<id>/*.patch and
# seeded/<id>{a,b}/patch.diff) against that property on scratch copies of /repo's HEAD, 4 at a time, and prints one
# JSON object {"total":N,"killed":K,"survived":[...]} on stdout. Used by the thorough tier; never changes a verdict.
cd "$(dirname "$(readlink -f "$0")")/.."
id=$1
run_one(){ p=$1; out=$(./tools/runmutant.sh "$p" "$2" 2>&1); if echo "$out" | grep -q "PATCH-FAILED\|GOVC-ERROR"; then echo "BROKEN $p"; elif echo "$out" | grep -q "^VIOLATION"; then echo "KILLED $p"; else echo "SURVIVED $p"; fi; }
export -f run_one
res=$( (ls mutants/$id/*.patch 2>/dev/null; ls seeded/${id}[ab]/patch.diff 2>/dev/null) | xargs -P 4 -I{} bash -c "run_one {} $id" )
python3 - "$res" <<'PY'
import sys,json
lines=[l for l in sys.argv[1].split('\n') if l.strip()]
k=[l.split()[1] for l in lines if l.startswith('KILLED')]
s=[l.split()[1] for l in lines if l.startswith('SURVIVED')]
b=[l.split()[1] for l in lines if l.startswith('BROKEN')]
print(json.dumps({"total":len(lines),"killed":len(k),"survived":s,"broken":b}))
PY
