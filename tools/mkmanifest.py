#!/usr/bin/env python3
"""Regenerates /verif/MANIFEST.json from the table below (kept by hand as checks come online)."""
import json, subprocess
props=[json.loads(l) for l in open('/verif/properties.jsonl')]
TRUST = ("Trusted: govc itself (go/ssa symbolic execution, value encodings, intrinsic contracts of dependencies listed per run in the evidence), "
         "go/types+go/ssa, the SMT solvers; machine integers as mathematical integers except in 'checked' units; float64 as reals; strings as an "
         "uninterpreted sort; termination not proved.")
CLAIMED = {
 "C07": dict(
   text="Deductive proof, for every well-formed filter AST and every attribute map (unbounded), that the eight evaluator functions in filter/evaluate.go return "
        "err == nil and exactly the documented Pub/Sub denotation (spec/filter.spec), with modifies-nothing frames (determinism/totality are the contract itself); "
        "boolean laws (double negation, De Morgan, commutativity, parenthesisation) are lemmas over that denotation. A code change that alters the evaluator's result on any input fails a named obligation.",
   note="Not decided by contracts: string->AST (participle parser, driven by reflection over struct tags) - well-formedness of parser output is a precondition (wf_*). "
        "Spec decision: '!=' on an absent attribute is false (the code's reading). "+TRUST,
   design="4/C07"),
 "C18": dict(
   text="Deductive proof of the functions the count/match guarantee rests on (faults/description.go, faults/set.go): Description.match returns true exactly for "
        "'count > 0, operation equal, every injected parameter present and equal' (map-range loop with an inductive invariant, all maps, unbounded); Set.match returns the first "
        "matching descriptor or nil iff none matches; Set.Check never fails a non-matching call and changes no counter then, fires the handler exactly once when something matches, "
        "decrements exactly one matching counter by one, and (racing variant: every atomic access may observe an arbitrary value) never calls the handler with a negative remaining count "
        "and at most once; Set.Add preserves the representation invariant. A pure counting lemma links 'decrement returned >= 0' to min(N, calls).",
   note="Schedules are not explored: atomic.AddInt64/LoadInt64 linearisability is an assumed axiom; the racing variant models interference by havocking the counter before every atomic access. "
        "Set.prune/Set.Current (listing after exhaustion) are not under contract yet. "+TRUST,
   design="4/C18"),
 "C10": dict(
   text="Deductive proof of the sequential obligations the no-lost-wake-up protocol rests on. W1: actions.WakePublishListeners wakes (closes the one-shot channel of) and unregisters every "
        "waiter of every listed subscription and never loses a registered waiter (nested loops over the registry with inductive invariants, all registry contents, unbounded). "
        "This obligation refuted the pinned code (early return at the first subscription without waiters; replayed, fixed by commit 5047f79).",
   note="The interleaving theorem (register-before-query + wake-after-commit => no lost wake-up) is a paper argument in DESIGN.md, not machine-checked; 'promptly' is not quantified. "
        "Hooks registered through AddPublishHook are assumed not to touch the waiter registry. "+TRUST,
   design="4/C10"),
}
REASONS = {}
def reason(pid):
    return REASONS.get(pid, "check not built yet (framework under construction; see DESIGN.md section 7 build order)")
hooks_commits = subprocess.run(["git","-C","/repo","log","--format=%H %s","c32c2b2..HEAD"],capture_output=True,text=True).stdout.strip().splitlines()
m={"version":1,
 "setup_cmd":"cd /verif && . ./env.sh && mkdir -p bin && cd govc && go build -o ../bin/govc .",
 "hooks":{"guard":"verif","enable":"contract files <pkg>/verif_contracts.go carry //go:build verif and contain comments only; govc loads /repo with -tags=verif",
          "baseline_off_cmd":"cd /repo && GOFLAGS=-mod=mod GOPROXY=off go test -vet=off -count=1 -timeout 25m ./...",
          "source_commits":[l.split()[0] for l in hooks_commits if 'verif hook' in l],"add_only":True},
 "engines":[{"name":"govc","path":"/verif/govc","serves_properties":sorted(CLAIMED),"kind_free_text":"contract-based deductive verifier for Go written for this task: go/packages+go/ssa front end, path-wise symbolic execution between cut points (= weakest preconditions on loop-free segments), contracts as //@ comments in /repo/<pkg>/verif_contracts.go, spec vocabulary in /verif/spec, obligations discharged by z3 5.1.0 / z3 4.8.12 / cvc5 1.0.3"}],
 "checks":[],
 "notes":"See DESIGN.md. Every check regenerates its verification conditions from /repo's working tree on each run.",
 "not_applicable":[]}
for p in props:
    pid=p["id"]
    if pid in CLAIMED:
        c=CLAIMED[pid]
        m["checks"].append({"property_id":pid,"quick_cmd":f"./check {pid} quick","thorough_cmd":f"./check {pid} thorough","evidence_file":f"/verif/evidence/{pid}.json",
          "replay_cmd_template":"cat {path}","engine":"govc",
          "level_claimed":{"category":"proof","text":c["text"],"design_ref":c["design"]},"level_note":c["note"],
          "technique":"contract-based deductive verification: weakest-precondition VCs generated from the Go SSA of /repo, discharged by SMT (z3/cvc5)"})
    else:
        m["not_applicable"].append({"property_id":pid,"reason":reason(pid)})
json.dump(m,open('/verif/MANIFEST.json','w'),indent=1)
print("claimed:",sorted(CLAIMED))
