#!/usr/bin/env python3
"""Regenerates /verif/MANIFEST.json from the table below (kept by hand as checks come online)."""
import json, subprocess
props=[json.loads(l) for l in open('/verif/properties.jsonl')]
TRUST = ("Trusted: govc itself (go/ssa symbolic execution, value encodings, intrinsic contracts of dependencies listed per run in the evidence), "
         "go/types+go/ssa, the SMT solvers; machine integers as mathematical integers except in 'checked' units; float64 as reals; strings as an "
         "uninterpreted sort; termination not proved.")
CLAIMED = {
 "C07": dict(
   text="Deductive proof, for every well-formed filter AST and every attribute map (unbounded), that the eight evaluator functions in filter/evaluate.go return "
        "err == nil and exactly the documented Pub/Sub denotation (spec/filter.spec), with modifies-nothing frames (determinism/totality are the contract itself); "
        "boolean laws (double negation, De Morgan, commutativity, parenthesisation) are lemmas over that denotation. A code change that alters the evaluator's result on any input fails a named obligation.",
   note="Not decided by contracts: string->AST (participle parser, driven by reflection over struct tags) - well-formedness of parser output is a precondition (wf_*). "
        "Spec decision: '!=' on an absent attribute is false (the code's reading). "+TRUST,
   design="4/C07"),
 "C18": dict(
   text="Deductive proof of the functions the count/match guarantee rests on (faults/description.go, faults/set.go): Description.match returns true exactly for "
        "'count > 0, operation equal, every injected parameter present and equal' (map-range loop with an inductive invariant, all maps, unbounded); Set.match returns the first "
        "matching descriptor or nil iff none matches; Set.Check never fails a non-matching call and changes no counter then, fires the handler exactly once when something matches, "
        "decrements exactly one matching counter by one, and (racing variant: every atomic access may observe an arbitrary value) never calls the handler with a negative remaining count "
        "and at most once; Set.Add preserves the representation invariant; Set.Current lists exactly the descriptors that still have injections left (nested loops over the map of descriptor lists). A pure counting lemma links 'decrement returned >= 0' to min(N, calls).",
   note="Schedules are not explored: atomic.AddInt64/LoadInt64 linearisability is an assumed axiom; the racing variant models interference by havocking the counter before every atomic access. "
        "Set.Current is under contract (the listing shows exactly the descriptors with a positive remaining count, and no operation without any); Set.prune, the in-place clean-up run in the background, is under contract too (no descriptor with injections left is lost, nothing is invented, no counter changes; sequential reading under the set's lock). "+TRUST,
   design="4/C18"),
 "C10": dict(
   text="Deductive proof of the sequential obligations the no-lost-wake-up protocol rests on. W1: actions.WakePublishListeners wakes (closes the one-shot channel of) and unregisters every "
        "waiter of every listed subscription and never loses a registered waiter (nested loops over the registry with inductive invariants, all registry contents, unbounded). "
        "This obligation refuted the pinned code (early return at the first subscription without waiters; replayed, fixed by commit 5047f79).",
   note="The interleaving theorem (register-before-query + wake-after-commit => no lost wake-up) is a paper argument in DESIGN.md, not machine-checked; 'promptly' is not quantified. "
        "Hooks registered through AddPublishHook are assumed not to touch the waiter registry. "+TRUST,
   design="4/C10"),
}
CLAIMED.update({
 "C01": dict(
   text="Deductive proof of the sequential functions at-least-once delivery rests on: PublishMessage.Execute stores exactly one message and fans it out to every live subscription of the topic "
        "(one delivery per subscription whose filter accepts it, none otherwise; loop invariant over the subscription list, unbounded); deliverToSubscription creates exactly one open, unexpired, immediately "
        "due delivery for (message, subscription); the pull candidate query returns every open, unexpired, due (and, when ordered, unblocked) delivery of the subscription when it returns fewer than MaxMessages; "
        "applyResults hands a candidate out without ever completing or removing it (it stays open with a later lease); PruneCompletedDeliveries never removes an open delivery; the pull action's "
        "single-transaction entry point (verifySub -> query -> applyResults, in a retry loop) is proved to establish each step's precondition from the previous step's postcondition; the Publish handler returns, per request message and in order, the id of a newly stored message carrying exactly that message's payload, attributes and ordering key on the named live topic.",
   note="Whole-history/liveness part (a pull eventually happens, streaming pull loops) is not under contract; the multi-transaction wrapper ExecuteClient is used through a trusted summary by the handlers (its body is verified separately with an assumed transaction runner); concurrency between transactions is not explored (the SQL engine's isolation is assumed: one Execute = one atomic step). "+TRUST,
   design="4/C01"),
 "C02": dict(
   text="Deductive proof that the pull candidate query (queryAndLockDeliveriesOnce) returns only open, unexpired, due deliveries of exactly the pulled subscription, at most MaxMessages of them, pairwise distinct, "
        "with the message row of each loaded verbatim; that applyResults copies exactly that message's id, payload, attributes, ordering key and publish time into each result, reports attempt old+1, never repeats a delivery in one response and returns at most MaxMessages; "
        "that publish/dead-letter create deliveries only for subscriptions of the message's topic / the configured dead-letter topic whose filter accepts the message; "
        "and that ack, nack, seek-to-time, seek-to-snapshot and applyResults change deliveries of the addressed subscription / the listed ids only (frame conditions over the deliveries table).",
   note="entDeliveryToGrpc is under contract (ack id = delivery id, message id, payload bytes, attributes, ordering key, publish time, attempt copied faithfully). The Pull/StreamingPull loops are not; 'the same JSON value' across the database JSON codec is assumed. Isolation between concurrent transactions assumed. "+TRUST,
   design="4/C02"),
 "C03": dict(
   text="Deductive proof of AckDeliveries.Execute: exactly the listed deliveries that are still open are completed (completed_at set to one instant read from the clock), every other delivery row and every other column is unchanged "
        "(whole-table postcondition with frame), an already completed delivery is never reopened, and unknown ids are ignored; of streamWrapper.adaptIn: every ack id (and every modify-deadline id) of a streaming request - first request or not - is "
        "converted in order into the stream request, with the largest requested deadline; and of parse.UUIDsFromStrings (all ids converted, one bad id fails the list).",
   note="The unary Acknowledge handler is covered for no-panic (C16) only; 'never delivered again' additionally relies on the pull query contract of C02 (completed deliveries are never candidates). The streamer that consumes the stream request (C11) is not under contract. "+TRUST,
   design="4/C03"),
 "C04": dict(
   text="Deductive proof of NextDelayFor with machine-integer overflow checks on: the nominal delay is exactly trunc(min(maxBackoff, minBackoff x 1.1^n)) with the documented defaults, jitter is in [0, 1 s) and absent for delays <= 0.5 s "
        "(float64 as reals, math.Pow axiomatised); of applyResults: a delivery handed out as attempt old+1 gets attempts = old+1 and attempt_at = now + that back-off for old+1 (+ jitter < 1 s), stays open, nothing else about it changes, and the "
        "reported attempt number is old+1; of NackDeliveries.Execute: every listed outstanding delivery is rescheduled by the back-off for its attempt count (or dead-lettered when its attempts are used up), nothing else changes; "
        "of DelayDeliveries.Execute: a positive delay can only move attempt_at later, zero/negative sets it to now; of adaptIn: a streaming modify-deadline applies the largest requested deadline to exactly the listed ids. "
        "The pull query contract (C02) gives 'not handed out before attempt_at'. The pull action's body is also verified with every step in a transaction of its own (the way ExecuteClient runs it, the runner being an assumed parameter contract): "
        "the lease is taken in the very transaction that selected and locked the candidates (ghost transaction counter; precondition same_transaction of applyResults).",
   note="Exclusivity between concurrent pullers is reduced to 'select, lock and lease happen in one transaction'; that the SQL engine then excludes a second puller (row locks, SKIP LOCKED, SQLite serialisation) is assumed: schedules are not explored. Retry policies are bounded by 100 days (policy_domain precondition) so that Duration arithmetic cannot overflow. "+TRUST,
   design="4/C04"),
 "C05": dict(
   text="Deductive proof that deliverToSubscription, for an ordered subscription and a keyed message, links the new delivery behind the latest unexpired delivery of the same subscription whose message has the same ordering key "
        "(and to nothing when there is none), and that the pull candidate query returns, for an ordered subscription, only deliveries whose predecessor is absent, completed or expired. The predecessor clause refuted the pinned code twice "
        "(predecessor chosen regardless of key; lookup restricted to the message's topic): both replayed against the real code and fixed (7cfe40f, 58b0799).",
   note="Ordering across redelivery after nack and the streaming flow-control path are not under contract. Unkeyed messages and unordered subscriptions are unconstrained by design. "+TRUST,
   design="4/C05"),
 "C06": dict(
   text="Deductive proof of the dead-letter routine deadLetterDelivery (the delivery is completed on the source subscription, exactly one delivery of the same message is created on every live subscription of the configured dead-letter topic "
        "whose filter accepts it, nothing else changes, the receivers are woken on commit) and of its three triggers: the background sweep DeadLetterDeliveries.Execute retires exactly deliveries that are open, unexpired, due, on a live subscription with a full "
        "dead-letter configuration and with attempts >= max_delivery_attempts, and misses none below its batch limit; NackDeliveries.Execute and applyResults call the routine only for a still-open delivery whose attempts are used up on such a subscription "
        "(the routine's precondition is an obligation at each call site).",
   note="History induction ('after exactly N attempts') is not machine-checked: the contracts give the per-step rule. "+TRUST,
   design="4/C06"),
 "C08": dict(
   text="Deductive proof that CreateSubscription.Execute stores a filter only if it parses (filter_validated), that publish evaluates exactly the stored filter through the C07 evaluator contracts, and that the printer's formatAttrName prints an "
        "attribute name verbatim only if it lexes as one identifier (non-empty, every rune an identifier rune) and as a quoted string otherwise (string-range loop with an inductive invariant over rune positions). The last obligation refuted the pinned code for the empty name (replayed, fixed).",
   note="The rest of the printer (AsFilter over the AST) and the parser itself (participle, reflection-driven) are outside the verifier's reach: print/parse round-trip as a whole is not decided. UTF-8 decoding facts used by range-over-string are axioms. "+TRUST,
   design="4/C08"),
 "C09": dict(
   text="Deductive proof, for 30 transaction bodies and helpers in actions/, that a failure reported by the storage layer on any statement is never swallowed (ghost flag dbfailed => non-nil error), that the commit hooks they register act only after a successful commit "
        "(hook obligations: the hook is symbolically run in commit-failure and commit-success mode), and of the transaction runner ent.Client.DoTx itself: it commits only after the wrapped function returned nil, rolls back otherwise, and reports success only when the commit went through "
        "(ghost record of Commit/Rollback calls; deferred closure and named result modelled); and, at the API level, every unary handler that writes through a transaction leaves topics, subscriptions, messages, deliveries and snapshots exactly as they were whenever it answers with an error (any statement or the commit may fail).",
   note="DoCtxTxRetry's retry loop and the use of DoTx at call sites are a modelled idiom (rollback restores the tables), not re-verified per call; Commit/Rollback/BeginTx are intrinsics (database/sql is trusted). Crash points inside the SQL engine are its responsibility. "+TRUST,
   design="4/C09"),
 "C12": dict(
   text="Deductive proof of the resource lifecycle functions: CreateTopic/CreateSubscription refuse a live duplicate name and otherwise create exactly one live row; DeleteTopic/DeleteSubscription soft-delete exactly the named live row; findTopic returns the live row of that name; "
        "the Get handlers succeed exactly for live resources of that name; the Create / Delete handlers refuse a duplicate, free the name and touch no other resource; a re-created resource inherits no subscriptions / no backlog (its row id is fresh and nothing references it); "
        "and of the four listing handlers (ListTopics, ListTopicSubscriptions, ListSubscriptions, ListSnapshots): every page entry is a live resource of exactly the requested project after the page token, pages are ascending by id, at most the effective page size, "
        "a full page contains every matching resource up to its last id and its token resumes strictly after it, a short page is complete and carries no token - so pages partition the listing exactly once for any page size. "
        "The page_sound/page_complete clauses refuted the pinned ListSnapshots (wrong name prefix; replayed; fixed in 9b08ba1).",
   note="Listing consistency is per page over one transaction snapshot; resources created or deleted between pages are outside the property. Name validity predicates (isValid*Name, regexp) are trusted. "+TRUST,
   design="4/C12"),
 "C13": dict(
   text="Deductive proof of seek and snapshot: SeekSubscriptionToTime completes exactly the open deliveries of the subscription published at or before the time and reopens those published after it; CreateSnapshot records exactly the currently "
        "acknowledged message ids of the subscription; SeekSubscriptionToSnapshot restores that acknowledged set; other subscriptions' deliveries are untouched (frame).",
   note="Snapshot expiry and UpdateSnapshot are covered for no-panic only. "+TRUST,
   design="4/C13"),
 "C14": dict(
   text="Deductive proof that subscription expiry follows the stored ttl: CreateSubscription stamps expires_at = now + ttl, deliverToSubscription computes delivery expiry from the subscription's message ttl, applyResults (every successful pull) pushes expires_at to now + ttl, "
        "and DeleteExpiredSubscriptions soft-deletes exactly the live subscriptions whose expires_at has passed (and none other), waking their waiters."
        " The pull action's body run with one transaction per step (as ExecuteClient does) restarts the clock in a committed transaction for every pull that finds its subscription, however the pull ends (cancelled, timed out, empty or not): postcondition pull_restarts_clock.",
   note="The transaction runner handed to the pull action's body is an assumed contract (runs its argument once in a fresh transaction, rolls back on error or commit failure); DoCtxTxRetry's retry loop itself is not verified. "+TRUST,
   design="4/C14"),
 "C15": dict(
   text="Deductive proof of the six background prune jobs and the expiry sweep: each removes only rows its retention rule allows (completed/expired deliveries older than the cut-off, messages without deliveries, soft-deleted subscriptions/topics older than the cut-off and without dependants), "
        "never an open unexpired delivery or a live resource, and leaves every other row unchanged (whole-table postconditions).",
   note="Scheduling of the jobs (cron service) and their mutual interleaving are not explored; each job is one atomic transaction by assumption. "+TRUST,
   design="4/C15"),
 "C16": dict(
   text="Deductive no-panic proof of 22 Publisher/Subscriber gRPC handlers, 3 entity mappers and streamWrapper.adaptIn for every request message protobuf decoding can produce (any field nil, empty, negative) and every database content satisfying the stated table invariants: "
        "nil dereference, index, slice, map-write, type assertion, explicit panic() in constructors reached from the handler, division - each is a named obligation. This refuted the pinned code at 11 requests (six fix commits, replayed). "
        "Every one of the 21 unary handlers that writes through a transaction is also proved to leave topics, subscriptions, messages, deliveries and snapshots exactly as they were whenever it answers with an error (rollback modelled by the transaction idiom; a handler that returns an error after its commit fails this obligation). "
        "For the interceptor chain: the unary and stream fault-injection interceptors either reject a request before the wrapped handler runs or answer with exactly the handler's answer, so an injected fault never turns a request that was carried out into an error.",
   note="Pull (its multi-transaction pull action is a trusted summary) is excluded from the error-leaves-state clause; StreamingPull's streamer and the assembly of the chain in grpc/server.go are not under contract. Dependencies are assumed panic-free on arguments satisfying their intrinsic preconditions. "+TRUST,
   design="4/C16"),
 "C17": dict(
   text="Deductive proof of the create -> read round trip at the API: the CreateSubscription handler stores exactly the requested configuration with the documented defaults filled in (30 d expiration, 7 d retention, 5 attempts) and answers with what the stored row holds; "
        "GetSubscription / GetTopic answer with exactly what the row holds (entity mappers proved field by field; a NULL column reads as the zero value); CreateTopic stores the labels given; "
        "that CreateSubscription.Execute / CreateTopic.Execute store exactly the configuration given; that UpdateSubscription / UpdateTopic change exactly the columns named by the update mask on exactly the named live row (loop over mask paths with per-column invariants on the "
        "symbolic update builder) and that a listed path is applied even when it only clears optional configuration; that entTopicToGrpc returns the stored name and labels; and for the duration codec: Interval.Value stores exactly Go's duration text and Interval.Scan of that text gives back "
        "the same duration (String/ParseDuration assumed inverse), rejects text that is neither format, and keeps the old value on failure.",
   note="Also proved with overflow checks on: adjustDuration adds value x scale exactly or fails (this refuted the pinned code on intervals beyond 292 years; replayed, fixed). Not under contract: the topic names shown in a subscription response (topic / dead-letter topic strings); PostgreSQL's reading of *negative* interval text (known, not repaired: the sign of the hours field is not applied to minutes and seconds; mmmbbb never stores negative intervals). "+TRUST,
   design="4/C17"),
})
CLAIMED["C19"] = dict(
   text="Deductive proof of the sequential parts of HTTP push (actions/http-push-streamer.go): Send hands the JSON encoder an envelope that carries the delivery faithfully (base64 of the payload, attribute map, message id text, ordering key, "
        "publish time in RFC 3339 with nanoseconds, subscription name, delivery attempt - against a ghost pointer to the marshalled value); the goroutine it starts puts the delivery id on an ack queue only after a success status "
        "(102, 200, 201, 202, 204) and on the nack queue after any other status or a transport error, and sends nothing else (ghost history of channel sends, ghost HTTP outcome); Receive turns what it takes from the ack queues "
        "into acks and from the nack queue into nacks, never mixed and never dropped, and keeps the adaptive window within 1..1000, announcing every change (drainIds loop with inductive invariants).",
   note="Not decided: the JSON encoding itself and the HTTP transport (intrinsics), goroutine interleavings (answers out of order, the window actually limiting concurrent pushes - that is the streamer's flow control, C11), 'pushed again after the backoff' (the nack path is C04). "
        "Channels are modelled by a ghost history of what this code sent/received; blocking and buffering are not modelled. "+TRUST,
   design="9.5/C19")
CLAIMED["C11"] = dict(
   text="Deductive proof of the one part of streaming flow control that is a single function: the byte budget of a fetch. applyResults (what every streaming fetch goes through) accepts a candidate only while the running total of accepted payload sizes "
        "stays within MaxBytes; the only exception is the first candidate of a fetch that is not strict, which is then the only message of the fetch. The total is a ghost prefix sum kept by the loop specification (loop ghost assignment) and pinned down in the postcondition by its recurrence, for any number of candidates.",
   note="This is a small part of C11 and is labelled as such. NOT decided: everything in MessageStreamer.Go - the four closures that share the flow-control settings and the pending map under a mutex and run concurrently (that outstanding messages/bytes never exceed the client's limits across fetches, that strict mode is "
        "requested whenever something is outstanding, that capacity released by an ack/nack or an outside Acknowledge wakes the sender, no stall). The verifier is sequential; a lock invariant with rely/guarantee conditions was not built. Seeded change C11b (pending recorded after the send) is therefore not caught; C11a (the running total is overwritten instead of accumulated) is. "+TRUST,
   design="9.5/C11")
CLAIMED["C10"]["text"] += (" W3: PublishAwaiter registers a fresh open one-shot channel for exactly that subscription and CancelPublishAwaiter removes exactly that registration (registry representation invariant preserved); in the pull action a waiter for the subscription is registered at every candidate look-up (precondition 'listening' of the query, an obligation in the verified single-transaction entry point).")
CLAIMED["C10"]["text"] += (" W2: every state-changing action that can make a delivery available (publish, dead-letter, delay to now, seek, prune-expired, expiry, create/delete subscription, ack on ordered subscriptions) requests a wake-up of the affected subscription "
        "and does so through a commit hook that fires only after a successful commit (hook obligations).")
CLAIMED["C07"]["text"] += " deliverToSubscription is proved to use exactly that evaluator on the stored filter and the message's attributes."
REASONS = {
 "C11": "no contract within reach decides it: the flow-control accounting lives in four closures of MessageStreamer.Go that share fc and the pending map under a mutex and run concurrently; the verifier built here is sequential (one function, one thread). A per-closure contract would need a ghost sum over a map plus a rely/guarantee argument for what the other goroutines do between the unlock and the fetch; that lock-invariant support was not built. Not claimed rather than switching technique or claiming on weaker grounds.",
}

def reason(pid):
    return REASONS.get(pid, "check not built yet (framework under construction; see DESIGN.md section 7 build order)")
hooks_commits = subprocess.run(["git","-C","/repo","log","--format=%H %s","c32c2b2..HEAD"],capture_output=True,text=True).stdout.strip().splitlines()
m={"version":1,
 "setup_cmd":"cd /verif && . ./env.sh && mkdir -p bin && cd govc && go build -o ../bin/govc .",
 "hooks":{"guard":"verif","enable":"contract files <pkg>/verif_contracts.go carry //go:build verif and contain comments only; govc loads /repo with -tags=verif",
          "baseline_off_cmd":"cd /repo && GOFLAGS=-mod=mod GOPROXY=off go test -vet=off -count=1 -timeout 25m ./...",
          "source_commits":[l.split()[0] for l in hooks_commits if ' verif hook' in l or ' verif:' in l],"add_only":True},
 "engines":[{"name":"govc","path":"/verif/govc","serves_properties":sorted(CLAIMED),"kind_free_text":"contract-based deductive verifier for Go written for this task: go/packages+go/ssa front end, path-wise symbolic execution between cut points (= weakest preconditions on loop-free segments), contracts as //@ comments in /repo/<pkg>/verif_contracts.go, spec vocabulary in /verif/spec, obligations discharged by z3 5.1.0 / z3 4.8.12 / cvc5 1.0.3"}],
 "checks":[],
 "notes":"See DESIGN.md. Every check regenerates its verification conditions from /repo's working tree on each run.",
 "not_applicable":[]}
for p in props:
    pid=p["id"]
    if pid in CLAIMED:
        c=CLAIMED[pid]
        m["checks"].append({"property_id":pid,"quick_cmd":f"./check {pid} quick","thorough_cmd":f"./check {pid} thorough","evidence_file":f"/verif/evidence/{pid}.json",
          "replay_cmd_template":"cat {path}","engine":"govc",
          "level_claimed":{"category":"proof","text":c["text"],"design_ref":c["design"]},"level_note":c["note"],
          "technique":"contract-based deductive verification: weakest-precondition VCs generated from the Go SSA of /repo, discharged by SMT (z3/cvc5)"})
    else:
        m["not_applicable"].append({"property_id":pid,"reason":reason(pid)})
json.dump(m,open('/verif/MANIFEST.json','w'),indent=1)
print("claimed:",sorted(CLAIMED))
